"""Deliberately broken bodies for the generator self-test.  Text-anchored: (file, unique old text, new text)."""
MUTANTS = [
    dict(prop='C04', name='C04.wrong_tap', file='devices.py', old='23: [23, 18],', new='23: [23, 17],'),
    dict(prop='C04', name='C04.shift_dir', file='devices.py', old='lfsr = ((lfsr << 1) | new) & (1 << order) - 1', new='lfsr = ((lfsr >> 1) | (new << (order - 1))) & (1 << order) - 1'),
    dict(prop='C04', name='C04.zero_seed_kept', file='devices.py', old='    if seed == 0:\n        seed = 1\n', new='    if seed == 0:\n        seed = 0\n'),
    dict(prop='C04', name='C04.emit_msb', file='devices.py', old='prbs[index] = lfsr & 1', new='prbs[index] = (lfsr >> (order - 1)) & 1'),
    dict(prop='C04', name='C04.return_initial_state', file='devices.py', old='    return output, lfsr\n', new='    return output, seed\n'),
    dict(prop='C04', name='C04.len_zero_ok', file='devices.py', old='        elif len <= 0:\n            raise ValueError(', new='        elif len < 0:\n            raise ValueError('),
    dict(prop='C04', name='C04.no_mask', file='devices.py', old='lfsr = ((lfsr << 1) | new) & (1 << order) - 1', new='lfsr = ((lfsr << 1) | new) & (1 << (order + 1)) - 1'),
]
