"""Generator self-test: apply deliberately broken bodies (text-anchored) to a scratch copy of the repository and
require the corresponding check to report a VIOLATION.  `./vcheck selftest [Cxx ...]`"""
import os, shutil, subprocess, sys, tempfile, json, time
HERE = os.path.dirname(os.path.dirname(os.path.abspath(__file__)))
from selftest.mutants import MUTANTS


def run_one(m, verbose=False):
    prop, name, file, old, new = m['prop'], m['name'], m['file'], m['old'], m['new']
    tmp = tempfile.mkdtemp(prefix='vselftest_', dir=os.environ.get('VERIF_SCRATCH', '/tmp'))
    try:
        shutil.copytree('/repo/opticomlib', os.path.join(tmp, 'opticomlib'))
        p = os.path.join(tmp, 'opticomlib', file)
        src = open(p, encoding='utf-8').read()
        if src.count(old) != 1:
            return name, 'anchor-not-unique' if src.count(old) else 'anchor-missing', ''
        open(p, 'w', encoding='utf-8').write(src.replace(old, new))
        env = dict(os.environ, VERIF_REPO=tmp)
        cmd = [os.path.join(HERE, 'vcheck'), prop, '--no-evidence'] + sum([['--only', o] for o in m.get('only', [])], [])
        t = time.time()
        r = subprocess.run(cmd, capture_output=True, text=True, env=env, timeout=1800)
        viol = [l for l in r.stdout.split('\n') if l.startswith('VIOLATION')]
        ok = r.returncode == 1 and viol
        if ok and m.get('expect'):
            ok = any(m['expect'] in l for l in r.stdout.split('\n'))
        return name, 'caught' if ok else f'MISSED(exit {r.returncode})', (r.stdout[-1500:] if (verbose or not ok) else '\n'.join(viol[:3])) + f'  [{time.time()-t:.0f}s]'
    finally:
        shutil.rmtree(tmp, ignore_errors=True)


def main():
    sel = sys.argv[1:]
    verbose = '-v' in sel
    sel = [s for s in sel if s != '-v']
    ms = [m for m in MUTANTS if not sel or m['prop'] in sel or m['name'] in sel]
    from concurrent.futures import ThreadPoolExecutor
    bad = 0
    with ThreadPoolExecutor(8) as ex:
        for name, st, out in ex.map(lambda m: run_one(m, verbose), ms):
            print(f'{st:>20}  {name}')
            if st != 'caught':
                bad += 1
                print(out)
            elif verbose:
                print(out)
    print(f'{len(ms) - bad}/{len(ms)} mutants caught')
    return 0 if bad == 0 else 1


if __name__ == '__main__':
    sys.exit(main())
