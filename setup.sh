#!/bin/sh
# Build the overlay venv used by every check (offline; idempotent).
set -e
cd "$(dirname "$0")"
if [ -x .venv/bin/python ] && .venv/bin/python -c "import z3, numpy, jsonschema, deal, mpmath" 2>/dev/null; then
  exit 0
fi
rm -rf .venv
/venv/bin/python -m venv .venv
.venv/bin/pip install -q --no-index --find-links /opt/veriftools/wheels --no-deps \
   z3-solver deal icontract jsonschema jsonschema_specifications referencing rpds_py attrs asttokens typing_extensions mpmath
SP=$(.venv/bin/python -c "import site;print(site.getsitepackages()[0])")
echo "import site; site.addsitedir('/venv/lib/python3.12/site-packages')" > "$SP/zz_venv_overlay.pth"
.venv/bin/python -c "import z3, numpy, scipy, jsonschema, deal; print('venv ok: z3', z3.get_version_string(), 'numpy', numpy.__version__)"
