import Mathlib.Dynamics.PeriodicPts.Defs
import Mathlib.Data.Nat.Prime.Basic
import Mathlib.Tactic.Ring
import Mathlib.Tactic.Linarith
open Function

theorem exact_period {α : Type*} (f : α → α) (N : ℕ) (hN : 0 < N) (v : α)
    (hper : f^[N] v = v)
    (hq : ∀ q : ℕ, q.Prime → q ∣ N → f^[N / q] v ≠ v) :
    ∀ k : ℕ, 0 < k → k < N → f^[k] v ≠ v := by
  intro k hk0 hkN hk
  have hpN : IsPeriodicPt f N v := hper
  have hpk : IsPeriodicPt f k v := hk
  set d := minimalPeriod f v with hd
  have hdN : d ∣ N := hpN.minimalPeriod_dvd
  have hdk : d ∣ k := hpk.minimalPeriod_dvd
  have hdpos : 0 < d := hpN.minimalPeriod_pos hN
  have hdlt : d < N := lt_of_le_of_lt (Nat.le_of_dvd hk0 hdk) hkN
  obtain ⟨m, hm⟩ := hdN
  have hm1 : 1 < m := by
    by_contra h
    have : m ≤ 1 := not_lt.mp h
    rcases Nat.le_one_iff_eq_zero_or_eq_one.mp this with h0 | h1
    · subst h0; simp at hm; omega
    · subst h1; simp at hm; omega
  obtain ⟨q, hqp, hqm⟩ := Nat.exists_prime_and_dvd (show m ≠ 1 by omega)
  obtain ⟨r, hr⟩ := hqm
  have hqN : q ∣ N := ⟨d * r, by rw [hm, hr]; ring⟩
  have hdiv : N / q = d * r := by
    rw [hm, hr]
    have : d * (q * r) = q * (d * r) := by ring
    rw [this, Nat.mul_div_cancel_left _ hqp.pos]
  have : IsPeriodicPt f (N / q) v := by
    rw [hdiv]
    exact (isPeriodicPt_minimalPeriod f v).mul_const r
  exact hq q hqp hqN this
