"""Reductions (sum, mean, max, min, any, all, argmax, argmin, std).

A reduction over an axis of concrete length is expanded; over an axis of symbolic length it is an uninterpreted
functional of its body, identified up to provable extensional equality of the bodies (congruence), with
  - the existential halves of the defining axioms Skolemised and assumed at creation,
  - the universal halves kept as clauses that the prover instantiates at the goal's index terms.
"""
from fractions import Fraction
import numpy as np
import z3
from .values import *
from .arrays import lift, from_seq, prod, MaskSel
from . import arrays


class Red:
    def __init__(self, op, n, nouter, body, result, foralls):
        self.op = op
        self.n = n
        self.nouter = nouter
        self.body = body          # (outer tuple, j) -> scalar
        self.result = result      # outer tuple -> scalar
        self.foralls = foralls    # list of functions (outer tuple, j) -> z3 Bool valid for all 0 <= j < n


MAX_EXPAND = 64


def _fold(ex, op, vals):
    if op in ('sum', 'mean'):
        acc = vals[0]
        for v in vals[1:]:
            acc = s_add(acc, v)
        if op == 'mean':
            acc = s_div(acc, len(vals), ex)
        return acc
    if op in ('max', 'min'):
        acc = vals[0]
        for v in vals[1:]:
            c = s_cmp('Gt' if op == 'max' else 'Lt', v, acc)
            acc = s_ite(c, v, acc) if not isinstance(c, bool) else (v if c else acc)
        return acc
    if op == 'any':
        acc = False
        for v in vals:
            acc = s_or(acc, tobool(v))
        return acc
    if op == 'all':
        acc = True
        for v in vals:
            acc = s_and(acc, tobool(v))
        return acc
    if op in ('argmax', 'argmin'):
        # first index attaining the extremum
        best = vals[0]
        bi = 0
        for k, v in enumerate(vals[1:], 1):
            c = s_cmp('Gt' if op == 'argmax' else 'Lt', v, best)
            if isinstance(c, bool):
                if c:
                    best, bi = v, k
            else:
                best = s_ite(c, v, best)
                bi = s_ite(c, k, bi)
        return bi
    raise Unsupported(f'reduction {op}')


def reduce_(ex, op, a, axis=None):
    if isinstance(a, (list, tuple)):
        a = from_seq(ex, a)
    if not isinstance(a, (Arr, np.ndarray)):
        if op in ('sum', 'mean', 'max', 'min'):
            return a
        if op in ('any', 'all'):
            return tobool(a)
        if op in ('argmax', 'argmin'):
            return 0
        raise Unsupported(op)
    a = lift(a)
    if isinstance(a, MaskSel):
        raise Unsupported('reduction of a mask selection')
    if a.ndim == 0:
        return reduce_(ex, op, a.at(), None)
    axis = conc(axis)
    if axis is None:
        if a.ndim == 1:
            axis = 0
        else:
            if op in ('argmax', 'argmin', 'mean', 'std'):
                if op == 'mean':
                    inner = reduce_(ex, 'sum', a, None)
                    return s_div(inner, prod(a.shape), ex)
                raise Unsupported(f'{op} over all axes')
            r = a
            for _ in range(a.ndim):
                r = reduce_(ex, op, r, -1)
            return r
    if axis < 0:
        axis += a.ndim
    if not 0 <= axis < a.ndim:
        raise SymRaise('AxisError')
    n = a.shape[axis]
    oshape = a.shape[:axis] + a.shape[axis + 1:]
    ael = a.elem

    def body(outer, j):
        return ael(tuple(outer[:axis]) + (j,) + tuple(outer[axis:]))

    kind = a.kind
    if op in ('any', 'all'):
        rkind = 'bool'
    elif op in ('argmax', 'argmin'):
        rkind = 'int'
    elif op in ('mean', 'std'):
        rkind = kmax(kind, 'float')
    elif op == 'sum' and kind == 'bool':
        rkind = 'int'
    else:
        rkind = kind
    nc = conc(n)
    if isinstance(nc, int) and nc <= (512 if op in ('sum', 'mean', 'argmax', 'argmin') else MAX_EXPAND):
        if nc == 0:
            if op in ('sum', 'any', 'all'):
                zero = {'sum': 0, 'any': False, 'all': True}[op]
                return zero if not oshape else Arr(oshape, lambda idx: zero, rkind)
            raise SymRaise('ValueError', 'zero-size array to reduction operation')
        if nc <= MAX_EXPAND and ex.foralls and op in ('any', 'all'):
            for j in range(nc):
                ex.add_index_term(z3.IntVal(j))

        def res(outer):
            return _fold(ex, op, [body(outer, j) for j in range(nc)])
        if not oshape:
            return res(())
        return Arr(oshape, lambda idx: res(tuple(idx)), rkind)
    # ---- symbolic length
    if op == 'std':
        raise Unsupported('std over a symbolic axis')
    red = _make(ex, op, n, len(oshape), body, kind)
    if not oshape:
        return red.result(())
    return Arr(oshape, lambda idx: red.result(tuple(idx)), rkind)


def _same_body(ex, r, op, n, nouter, body):
    if r.op != op or r.nouter != nouter:
        return False
    if not ex.entails(tobool(s_eq(r.n, n))):
        return False
    o = tuple(ex.newvar('o', 'int') for _ in range(nouter))
    j = ex.newvar('j', 'int')
    try:
        e = s_eq(r.body(o, j), body(o, j))
    except (Unsupported, SymRaise):
        return False
    from . import opaque, numeval
    if isinstance(e, bool):
        return e
    fast = False
    try:
        va, vb = r.body(o, j), body(o, j)
        # structural filter (see opaque.arrays_equal): bodies over different array element functions are different reductions
        if opaque._array_symbols(va) != opaque._array_symbols(vb):
            return False
        if not isinstance(va, (bool,)) and not (isz(va) and z3.is_bool(va)):
            comps = lambda v: [toreal(v.re), toreal(v.im)] if isinstance(v, Cx) else [toreal(v)]
            ca, cb = comps(va), comps(vb)
            if len(ca) == len(cb) and numeval.clearly_different(ex.pc, ca, cb, guard=z3.And(j >= 0, j < tonum(n), *[x >= 0 for x in o])):
                return False
            if len(ca) == len(cb):
                fast = numeval.likely_different(ex.pc, ca, cb, guard=z3.And(j >= 0, j < tonum(n), *[x >= 0 for x in o]))
    except (Unsupported, SymRaise, z3.Z3Exception):
        pass
    return opaque.entails_ax(ex, z3.Implies(z3.And(j >= 0, j < tonum(n)), toz(tobool(e))), fast=fast)


def _make(ex, op, n, nouter, body, kind):
    reds = ex.__dict__.setdefault('reds', [])
    for r in reds:
        if _same_body(ex, r, op, n, nouter, body):
            return r
    k = next(ex.fresh)
    ints = [z3.IntSort()] * nouter
    nz = tonum(n)
    foralls = []
    if op in ('sum', 'mean'):
        base = 'sum'
        if kind == 'complex':
            fr = z3.Function(f'sum_re!{k}', *ints, z3.RealSort())
            fi = z3.Function(f'sum_im!{k}', *ints, z3.RealSort())
            res_sum = lambda o: Cx(fr(*[tonum(x) for x in o]), fi(*[tonum(x) for x in o])) if o else Cx(fr(), fi())
        else:
            srt = z3.RealSort() if kind == 'float' else z3.IntSort()
            f = z3.Function(f'sum!{k}', *ints, srt)
            res_sum = lambda o: f(*[tonum(x) for x in o]) if o else f()
        # a sum reduction registered under 'sum'; 'mean' divides
        rsum = None
        for r in reds:
            if _same_body(ex, r, 'sum', n, nouter, body):
                rsum = r
        if rsum is None:
            rsum = Red('sum', n, nouter, body, res_sum, [])
            rsum.kind = kind
            reds.append(rsum)
            if kind in ('bool', 'int'):
                # bounds for sums of 0/1 valued bodies are added by the prover (needs the body range); here: empty sum
                pass
        if op == 'sum':
            return rsum
        rm = Red('mean', n, nouter, body, lambda o: s_div(rsum.result(o), n, ex), [])
        rm.kind = kind
        reds.append(rm)
        return rm
    if op in ('max', 'min'):
        srt = z3.RealSort() if kind == 'float' else z3.IntSort()
        if kind == 'complex':
            raise Unsupported('max of complex')
        f = z3.Function(f'{op}!{k}', *ints, srt)
        w = z3.Function(f'{op}_at!{k}', *ints, z3.IntSort())
        res = lambda o: f(*[tonum(x) for x in o]) if o else f()
        wit = lambda o: w(*[tonum(x) for x in o]) if o else w()
        cmpop = 'LtE' if op == 'max' else 'GtE'
        foralls.append(lambda o, j: toz(tobool(s_cmp(cmpop, body(o, j), res(o)))))
        r = Red(op, n, nouter, body, res, foralls)
        r.kind = kind
        r.witness = wit
        # existential half (for outer indices the prover instantiates); for scalar reductions assume now
        r.exists = lambda o: z3.And(wit(o) >= 0, wit(o) < nz, toz(tobool(s_eq(body(o, wit(o)), res(o)))))
        if nouter == 0:
            ex.assume(z3.Implies(nz > 0, r.exists(())))
            _register(ex, r, nz)
            ex.add_index_term(wit(()))
        reds.append(r)
        return r
    if op in ('any', 'all'):
        f = z3.Function(f'{op}!{k}', *ints, z3.BoolSort())
        w = z3.Function(f'{op}_at!{k}', *ints, z3.IntSort())
        res = lambda o: f(*[tonum(x) for x in o]) if o else f()
        wit = lambda o: w(*[tonum(x) for x in o]) if o else w()
        if op == 'any':
            foralls.append(lambda o, j: z3.Implies(toz(tobool(body(o, j))), res(o)))
            exists = lambda o: z3.Implies(res(o), z3.And(wit(o) >= 0, wit(o) < nz, toz(tobool(body(o, wit(o))))))
        else:
            foralls.append(lambda o, j: z3.Implies(res(o), toz(tobool(body(o, j)))))
            exists = lambda o: z3.Implies(z3.Not(res(o)), z3.And(wit(o) >= 0, wit(o) < nz, z3.Not(toz(tobool(body(o, wit(o)))))))
        r = Red(op, n, nouter, body, res, foralls)
        r.kind = 'bool'
        r.witness = wit
        r.exists = exists
        if nouter == 0:
            ex.assume(exists(()))
            _register(ex, r, nz)
            ex.add_index_term(wit(()))
        reds.append(r)
        return r
    if op in ('argmax', 'argmin'):
        if kind == 'complex':
            raise Unsupported('argmax of complex')
        f = z3.Function(f'{op}!{k}', *ints, z3.IntSort())
        res = lambda o: f(*[tonum(x) for x in o]) if o else f()
        better = 'LtE' if op == 'argmax' else 'GtE'
        strict = 'Lt' if op == 'argmax' else 'Gt'
        foralls.append(lambda o, j: toz(tobool(s_cmp(better, body(o, j), body(o, res(o))))))
        foralls.append(lambda o, j: z3.Implies(tonum(j) < res(o), toz(tobool(s_cmp(strict, body(o, j), body(o, res(o)))))))
        r = Red(op, n, nouter, body, res, foralls)
        r.kind = 'int'
        r.exists = lambda o: z3.And(res(o) >= 0, res(o) < nz)
        if nouter == 0:
            ex.assume(z3.Implies(nz > 0, r.exists(())))
            _register(ex, r, nz)
            ex.add_index_term(res(()))
        reds.append(r)
        return r
    raise Unsupported(f'reduction {op}')


def _register(ex, r, nz):
    """universal halves of a scalar reduction become facts instantiated at every index term of the path"""
    for fa in r.foralls:
        def g(t, fa=fa):
            try:
                return z3.Implies(z3.And(t >= 0, t < nz), fa((), t))
            except (Unsupported, SymRaise):
                return z3.BoolVal(True)
        ex.add_forall(g)


def instances(ex, outer_terms, j_terms):
    """instantiate the universal clauses of all registered reductions at the given index terms"""
    out = []
    for r in ex.__dict__.get('reds', []):
        nz = tonum(r.n)
        outs = [()] if r.nouter == 0 else [tuple(o) for o in outer_terms if len(o) == r.nouter]
        for o in outs:
            if r.nouter and hasattr(r, 'exists'):
                out.append(z3.Implies(nz > 0, r.exists(o)))
            for fa in r.foralls:
                for j in j_terms:
                    jz = tonum(j)
                    try:
                        out.append(z3.Implies(z3.And(jz >= 0, jz < nz), fa(o, jz)))
                    except (Unsupported, SymRaise):
                        pass
    return out


def sum_complement_lemmas(ex):
    """linearity of sums, instantiated for pairs of registered scalar sums over the same range whose bodies add up to 1
    element-wise:  sum f + sum g = n.   (checked by the solver at a fresh index before the lemma is emitted)"""
    out = []
    sums = [r for r in ex.__dict__.get('reds', []) if r.op == 'sum' and r.nouter == 0 and getattr(r, 'kind', None) in ('int', 'bool')]
    for a in range(len(sums)):
        for b in range(a + 1, len(sums)):
            r1, r2 = sums[a], sums[b]
            if not ex.entails(tobool(s_eq(r1.n, r2.n))):
                continue
            j = ex.newvar('j', 'int')
            try:
                body = tonum(r1.body((), j)) + tonum(r2.body((), j)) == 1
            except (Unsupported, SymRaise):
                continue
            if ex.entails(z3.Implies(z3.And(j >= 0, j < tonum(r1.n)), body)):
                out.append(z3.Implies(tonum(r1.n) >= 0, tonum(r1.result(())) + tonum(r2.result(())) == tonum(r1.n)))
    return out


def scale_lemma(ex, arr1, arr2, c, extra=()):
    """linearity of sums: if arr1[j] = c * arr2[j] element-wise (checked, c independent of j) then sum(arr1) = c * sum(arr2).
    arr1, arr2: 1-D real arrays over the same range.  Returns a z3 Bool or None."""
    from . import opaque
    if not ex.entails(tobool(s_eq(arr1.shape[0], arr2.shape[0]))):
        return None
    j = ex.newvar('js', 'int')
    lhs, rhs = arr1.elem((j,)), s_mul(c, arr2.elem((j,)))
    prem = s_eq(lhs, rhs)
    if prem is not True and ex.__dict__.get('fast_ident'):
        # numeric pre-check (only where the contract opted in: it tries many speculative premises): a premise that fails on sampled
        # interpretations is not worth a solver call.  No lemma is issued, which is sound, but the sampling ignores most hypotheses, so a
        # contract must switch this off around a lemma whose premise holds only because of the path condition.
        try:
            from . import numeval
            opq = lambda t: {n_ for n_ in opaque._array_symbols(t) if n_.startswith(('fft_', 'ifft_', 'L!', 'L_', 'ivp_'))}
            if opq(lhs) != opq(rhs):
                return None            # element terms over the outputs of different opaque operator applications: the premise is not provable
            if isz(toreal(lhs)) and isz(toreal(rhs)) and numeval.likely_different(ex.pc, [toreal(lhs)], [toreal(rhs)], guard=z3.And(j >= 0, j < tonum(arr1.shape[0]))):
                return None
        except (Unsupported, z3.Z3Exception, TypeError, AttributeError) as e_:
            import os
            if os.environ.get('PYVC_DEBUG'):
                print('scale_lemma precheck failed:', repr(e_))
    # `extra`: instances at the lemma's index j of universally quantified facts that hold on the path (functions j -> Bool or list of Bool)
    ext = []
    for f in extra:
        v = f(j)
        ext += list(v) if isinstance(v, (list, tuple)) else [v]
    if not (prem is True or opaque.entails_ax(ex, z3.Implies(z3.And(j >= 0, j < tonum(arr1.shape[0])), prem), extra=[z3.Implies(z3.And(j >= 0, j < tonum(arr1.shape[0])), e_) for e_ in ext if isz(e_)])):
        return None
    s1, s2 = reduce_(ex, 'sum', arr1, 0), reduce_(ex, 'sum', arr2, 0)
    return toreal(s1) == toreal(c) * toreal(s2)


def le_lemma(ex, arr1, arr2, extra=()):
    """monotonicity of sums: if arr1[j] <= arr2[j] element-wise (checked, possibly under `extra` hypotheses about index j given as
    functions j -> Bool) then sum(arr1) <= sum(arr2).  Returns a z3 Bool or None."""
    from . import opaque
    if not ex.entails(tobool(s_eq(arr1.shape[0], arr2.shape[0]))):
        return None
    j = ex.newvar('jm', 'int')
    prem = toreal(arr1.elem((j,))) <= toreal(arr2.elem((j,)))
    if not opaque.entails_ax(ex, z3.Implies(z3.And(j >= 0, j < tonum(arr1.shape[0])), prem), extra=[f(j) for f in extra]):
        return None
    s1, s2 = reduce_(ex, 'sum', arr1, 0), reduce_(ex, 'sum', arr2, 0)
    return toreal(s1) <= toreal(s2)
