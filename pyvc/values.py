"""Symbolic values of the verifier and the scalar / array algebra over them.

Scalars : python bool/int (concrete), Fraction (concrete real = a float literal taken exactly),
          z3 Bool/Int/Real terms, Cx (complex = pair of reals), BVInt (python/numpy int as 64-bit vector), str, None
Arrays  : Arr = shape + index function (+ dtype kind + provenance id); real numpy arrays of ints/bools may
          appear as concrete values and are lifted on demand.
"""
import itertools, operator
from fractions import Fraction
import numpy as np
import z3


class Unsupported(Exception):
    """construct outside the supported subset -> the obligation is UNDECIDED, never a violation"""


class SymRaise(Exception):
    """the program under analysis raises an exception on this path"""
    def __init__(self, cls, msg=None):
        self.cls = cls
        self.msg = msg


KINDS = ['bool', 'int', 'float', 'complex']


def kmax(a, b):
    return KINDS[max(KINDS.index(a), KINDS.index(b))]


def isz(v):
    return isinstance(v, z3.ExprRef)


class Cx:
    """complex scalar: re, im are real scalars (Fraction/int or z3 Real)"""
    __slots__ = ('re', 'im')

    def __init__(self, re, im):
        self.re = re
        self.im = im

    def __repr__(self):
        return f'Cx({self.re},{self.im})'


class BVInt:
    """an integer carried as a 64-bit vector (two's complement): python int below 2**62 / numpy int64"""
    __slots__ = ('bv',)
    W = 64

    def __init__(self, bv):
        self.bv = bv

    def __repr__(self):
        return f'BVInt({self.bv})'


class FStr:
    """structured f-string: list of str | (value, spec) -- never flattened when a part is symbolic"""
    def __init__(self, parts):
        self.parts = parts

    def __repr__(self):
        return 'FStr(%r)' % (self.parts,)

    def literal(self):
        return ''.join(p if isinstance(p, str) else '{}' for p in self.parts)


class Obj:
    _ids = itertools.count()

    def __init__(self, cls, **f):
        self.cls = cls
        self.f = dict(f)
        self.oid = next(Obj._ids)

    def __repr__(self):
        return f'<{self.cls}#{self.oid}>'


class Arr:
    _ids = itertools.count(1)

    def __init__(self, shape, elem, kind='float', prov=None, view=False, np_dtype=None):
        self.shape = list(shape)
        self.elem = elem              # function(tuple of indices) -> scalar
        self.kind = kind
        self.prov = next(Arr._ids) if prov is None else prov
        self.view = view              # True: shares the buffer identified by prov
        self.np_dtype = np_dtype      # e.g. 'uint8' where it matters

    @property
    def ndim(self):
        return len(self.shape)

    def at(self, *idx):
        return self.elem(tuple(idx))

    def __repr__(self):
        return f'Arr(shape={self.shape},kind={self.kind},prov={self.prov}{",view" if self.view else ""})'


def fresh_like(a, elem=None, kind=None, shape=None):
    return Arr(a.shape if shape is None else shape, a.elem if elem is None else elem, a.kind if kind is None else kind)


# ------------------------------------------------------------------ conversions
def frac(v):
    if isinstance(v, float):
        if v != v or v in (float('inf'), float('-inf')):
            raise Unsupported(f'non-finite float {v}')
        return Fraction(repr(v))
    return v


def toz(v):
    if isz(v):
        return v
    if isinstance(v, (bool, np.bool_)):
        return z3.BoolVal(bool(v))
    if isinstance(v, (int, np.integer)):
        return z3.IntVal(int(v))
    if isinstance(v, Fraction):
        return z3.RealVal(v)
    if isinstance(v, float):
        return z3.RealVal(frac(v))
    if isinstance(v, BVInt):
        return z3.BV2Int(v.bv, True)
    raise Unsupported(f'toz {type(v).__name__} {v!r}')


def tonum(v):
    """z3 arithmetic term (bools become 0/1)"""
    t = toz(v)
    if z3.is_bool(t):
        return z3.If(t, z3.IntVal(1), z3.IntVal(0))
    return t


def toreal(v):
    t = tonum(v)
    return z3.ToReal(t) if z3.is_int(t) else t


def tobool(v):
    """truth value of a scalar as python bool or z3 Bool"""
    if v is None:
        return False
    if isinstance(v, (bool, np.bool_)):
        return bool(v)
    if isinstance(v, (int, Fraction, float, np.integer)):
        return v != 0
    if isinstance(v, (str, list, tuple, dict)):
        return len(v) > 0
    if isinstance(v, Cx):
        return s_or(tobool(s_ne(v.re, 0)), tobool(s_ne(v.im, 0)))
    if isinstance(v, BVInt):
        return v.bv != 0
    if isz(v):
        if z3.is_bool(v):
            return v
        return v != 0
    if isinstance(v, FStr):
        return True
    if type(v).__name__ in ('Fn', 'Bound') or (callable(v) and getattr(v, '_pyvc_native', False)):
        return True                      # function objects are truthy
    raise Unsupported(f'truth of {type(v).__name__}')


def s_and(a, b):
    if isinstance(a, bool):
        return b if a else False
    if isinstance(b, bool):
        return a if b else False
    return z3.And(a, b)


def s_or(a, b):
    if isinstance(a, bool):
        return True if a else b
    if isinstance(b, bool):
        return True if b else a
    return z3.Or(a, b)


def s_not(a):
    if isinstance(a, bool):
        return not a
    return z3.Not(a)


def is_conc_num(v):
    return isinstance(v, (bool, int, Fraction, np.integer, np.bool_)) and not isz(v)


def conc(v):
    if isinstance(v, (np.integer,)):
        return int(v)
    if isinstance(v, np.bool_):
        return bool(v)
    return v


def scalar_kind(v):
    if isinstance(v, Cx):
        return 'complex'
    if isinstance(v, (bool, np.bool_)):
        return 'bool'
    if isinstance(v, (int, np.integer, BVInt)):
        return 'int'
    if isinstance(v, (Fraction, float)):
        return 'float'
    if isz(v):
        if z3.is_bool(v):
            return 'bool'
        if z3.is_int(v):
            return 'int'
        if z3.is_real(v):
            return 'float'
    raise Unsupported(f'scalar_kind {v!r}')


def is_scalar(v):
    return isinstance(v, (bool, int, Fraction, float, Cx, BVInt, np.integer, np.bool_)) or (isz(v) and not z3.is_array(v))


# ------------------------------------------------------------------ uninterpreted functions (axioms in axioms.py)
R = z3.RealSort()
I = z3.IntSort()
UF = {
    'sqrt': z3.Function('sqrt', R, R),
    'pow10': z3.Function('pow10', R, R),
    'log10': z3.Function('log10', R, R),
    'exp': z3.Function('exp', R, R),
    'ln': z3.Function('ln', R, R),
    'cos': z3.Function('cos', R, R),
    'sin': z3.Function('sin', R, R),
    'erfc': z3.Function('erfc', R, R),
    'pow2': z3.Function('pow2', I, I),
    'powr': z3.Function('powr', R, R, R),
    'atan2': z3.Function('atan2', R, R, R),
    'fftfreq': z3.Function('fftfreq', I, I, R),
}
PI = z3.Real('pi')


def recip_form(t, _cache=None):
    """rewrite x/y (y not a numeral) as x*(1/y) throughout a real term"""
    _cache = {} if _cache is None else _cache
    k = t.get_id()
    if k in _cache:
        return _cache[k]
    if not z3.is_app(t) or t.num_args() == 0:
        _cache[k] = t
        return t
    ch = [recip_form(c, _cache) for c in t.children()]
    if t.decl().kind() == z3.Z3_OP_DIV and not z3.is_rational_value(ch[1]) and not (z3.is_rational_value(ch[0]) and ch[0].as_fraction() == 1):
        r = ch[0] * (z3.RealVal(1) / ch[1])
    else:
        r = t.decl()(*ch) if any(not a.eq(b) for a, b in zip(ch, t.children())) else t
    _cache[k] = r
    return r


def uf(name, *args):
    # arguments are put in sum-of-monomials normal form so that equal arguments are recognised by linear reasoning over monomials
    conv = [toreal(a) if UF[name].domain(i) == R else tonum(a) for i, a in enumerate(args)]
    return UF[name](*[z3.simplify(recip_form(c), som=True) if z3.is_real(c) else c for c in conv])


def mk_sqrt(x):
    x = conc(x)
    if is_conc_num(x):
        x = Fraction(x)
        if x < 0:
            raise Unsupported('sqrt of negative constant')
        # exact rational square roots stay concrete
        n, d = x.numerator, x.denominator
        rn, rd = int(round(n ** 0.5)), int(round(d ** 0.5))
        if rn * rn == n and rd * rd == d:
            return Fraction(rn, rd)
    t = toreal(x)
    # sqrt(a*a) with a syntactically a square is left to the axioms
    return UF['sqrt'](t)


def is_app(t, name):
    return isz(t) and z3.is_app(t) and t.decl().name() == name


# ------------------------------------------------------------------ scalar arithmetic
def _cx(v):
    return v if isinstance(v, Cx) else Cx(v, 0)


def _both_conc(a, b):
    return is_conc_num(a) and is_conc_num(b)


def s_add(a, b):
    if isinstance(a, Cx) or isinstance(b, Cx):
        a, b = _cx(a), _cx(b)
        return Cx(s_add(a.re, b.re), s_add(a.im, b.im))
    if _both_conc(a, b):
        return conc(a) + conc(b)
    if is_conc_num(a) and conc(a) == 0 and not isinstance(a, (bool, np.bool_)):
        return _promote(b, a)
    if is_conc_num(b) and conc(b) == 0 and not isinstance(b, (bool, np.bool_)):
        return _promote(a, b)
    x, y = _coerce(a, b)
    return x + y


def _promote(v, other):
    """v + 0 where 0 may be a real: keep sorts right"""
    if isinstance(other, Fraction) and isz(v) and not z3.is_real(v):
        return toreal(v)
    if isz(v) and z3.is_bool(v):
        return tonum(v)
    return v


def s_sub(a, b):
    if isinstance(a, Cx) or isinstance(b, Cx):
        a, b = _cx(a), _cx(b)
        return Cx(s_sub(a.re, b.re), s_sub(a.im, b.im))
    if _both_conc(a, b):
        return conc(a) - conc(b)
    if is_conc_num(b) and conc(b) == 0:
        return _promote(a, b)
    x, y = _coerce(a, b)
    return x - y


def s_neg(a):
    if isinstance(a, Cx):
        return Cx(s_neg(a.re), s_neg(a.im))
    if is_conc_num(a):
        return -conc(a)
    return -tonum(a)


def s_mul(a, b):
    if isinstance(a, Cx) or isinstance(b, Cx):
        if not isinstance(a, Cx):
            return Cx(s_mul(a, b.re), s_mul(a, b.im))
        if not isinstance(b, Cx):
            return Cx(s_mul(a.re, b), s_mul(a.im, b))
        return Cx(s_sub(s_mul(a.re, b.re), s_mul(a.im, b.im)), s_add(s_mul(a.re, b.im), s_mul(a.im, b.re)))
    if _both_conc(a, b):
        return conc(a) * conc(b)
    for u, v in ((a, b), (b, a)):
        if is_conc_num(u) and not isinstance(u, (bool, np.bool_)):
            if conc(u) == 0:
                return Fraction(0) if (isinstance(u, Fraction) or (isz(v) and z3.is_real(v))) else 0
            if conc(u) == 1:
                return _promote(v, u)
    x, y = _coerce(a, b)
    return x * y


def _coerce(a, b):
    x, y = tonum(a), tonum(b)
    if z3.is_real(x) != z3.is_real(y):
        x = z3.ToReal(x) if z3.is_int(x) else x
        y = z3.ToReal(y) if z3.is_int(y) else y
    return x, y


def s_div(a, b, ex=None):
    """true division; definedness (divisor != 0) is recorded on the executor"""
    if isinstance(b, Cx):
        den = s_add(s_mul(b.re, b.re), s_mul(b.im, b.im))
        num = s_mul(_cx(a), Cx(b.re, s_neg(b.im)))
        return Cx(s_div(num.re, den, ex), s_div(num.im, den, ex))
    if isinstance(a, Cx):
        return Cx(s_div(a.re, b, ex), s_div(a.im, b, ex))
    if is_conc_num(b):
        if conc(b) == 0:
            raise SymRaise('ZeroDivisionError')
        if is_conc_num(a):
            return Fraction(conc(a)) / Fraction(conc(b))
        return toreal(a) / z3.RealVal(Fraction(conc(b)))
    if ex is not None:
        ex.defined(tonum(b) != 0, 'division by zero')
    return toreal(a) / toreal(b)


def s_pow(a, b, ex=None):
    a, b = conc(a), conc(b)
    if isinstance(b, Fraction) and b.denominator == 1:
        b = int(b)
    if isinstance(b, (bool, int)):
        b = int(b)
        if isinstance(a, Cx):
            if b < 0:
                raise Unsupported('negative complex power')
            r = Cx(1, 0)
            for _ in range(b):
                r = s_mul(r, a)
            return r
        if is_conc_num(a):
            if b >= 0:
                return a ** b
            return Fraction(1) / (Fraction(a) ** (-b))
        if b == 2 and is_app(a, 'sqrt'):
            if ex is not None:
                ex.defined(a.arg(0) >= 0, 'sqrt of a negative value')
            return a.arg(0)
        if 0 <= b <= 8:
            if b == 0:
                return 1
            r = tonum(a)
            for _ in range(b - 1):
                r = r * tonum(a)
            return r
        if b < 0:
            return s_div(1, s_pow(a, -b, ex), ex)
    if isinstance(a, Cx):
        raise Unsupported('complex ** non-integer')
    if isinstance(b, Fraction) and b == Fraction(1, 2):
        return mk_sqrt(a)
    if is_conc_num(a) and a == 10:
        return uf('pow10', b)
    if is_conc_num(a) and a == 2 and isz(b) and z3.is_int(b):
        return uf('pow2', b)
    if is_conc_num(a) and a == 2 and isinstance(b, int):
        return 2 ** b
    return uf('powr', a, b)


def s_floordiv(a, b, ex):
    a, b = conc(a), conc(b)
    if _both_conc(a, b):
        if b == 0:
            raise SymRaise('ZeroDivisionError')
        return a // b
    x, y = tonum(a), tonum(b)
    if z3.is_int(x) and z3.is_int(y):
        if not ex.entails(y > 0):
            raise Unsupported('// with a divisor not known to be positive')
        return x / y
    if not ex.entails(toreal(b) > 0):
        raise Unsupported('real // with a divisor not known to be positive')
    return z3.ToReal(z3.ToInt(toreal(a) / toreal(b)))


def s_mod(a, b, ex):
    a, b = conc(a), conc(b)
    if _both_conc(a, b):
        if b == 0:
            raise SymRaise('ZeroDivisionError')
        return a % b
    x, y = tonum(a), tonum(b)
    if z3.is_int(x) and z3.is_int(y):
        if not ex.entails(y > 0):
            raise Unsupported('% with a divisor not known to be positive')
        return x % y
    if isinstance(b, Fraction) and b > 0:
        xr = toreal(a)
        return xr - z3.RealVal(b) * z3.ToReal(z3.ToInt(xr / z3.RealVal(b)))
    raise Unsupported('real %')


def s_abs(a):
    if isinstance(a, Cx):
        return mk_sqrt(s_add(s_mul(a.re, a.re), s_mul(a.im, a.im)))
    if is_conc_num(a):
        return abs(conc(a))
    t = tonum(a)
    return z3.If(t >= 0, t, -t)


def s_conj(a):
    if isinstance(a, Cx):
        return Cx(a.re, s_neg(a.im))
    return a


def s_real(a):
    return a.re if isinstance(a, Cx) else a


def s_imag(a):
    return a.im if isinstance(a, Cx) else 0


_CMP = {'Eq': operator.eq, 'NotEq': operator.ne, 'Lt': operator.lt, 'LtE': operator.le, 'Gt': operator.gt, 'GtE': operator.ge}


def s_eq(a, b):
    return s_cmp('Eq', a, b)


def s_ne(a, b):
    return s_cmp('NotEq', a, b)


def s_cmp(op, a, b):
    """comparison of two scalars -> python bool or z3 Bool"""
    a, b = conc(a), conc(b)
    if isinstance(a, BVInt) or isinstance(b, BVInt):
        x = a.bv if isinstance(a, BVInt) else z3.BitVecVal(int(a), BVInt.W) if isinstance(a, int) else z3.Int2BV(toz(a), BVInt.W)
        y = b.bv if isinstance(b, BVInt) else z3.BitVecVal(int(b), BVInt.W) if isinstance(b, int) else z3.Int2BV(toz(b), BVInt.W)
        return _CMP[op](x, y)          # signed comparison for <, <=, ...
    if isinstance(a, Cx) or isinstance(b, Cx):
        a, b = _cx(a), _cx(b)
        if op == 'Eq':
            return s_and(s_cmp('Eq', a.re, b.re), s_cmp('Eq', a.im, b.im))
        if op == 'NotEq':
            return s_or(s_cmp('NotEq', a.re, b.re), s_cmp('NotEq', a.im, b.im))
        raise SymRaise('TypeError')
    if a is None or b is None or isinstance(a, str) or isinstance(b, str):
        if isz(a) or isz(b):
            if op == 'Eq':
                return False
            if op == 'NotEq':
                return True
            raise SymRaise('TypeError')
        return _CMP[op](a, b)
    if _both_conc(a, b):
        return bool(_CMP[op](a, b))
    if isz(a) and z3.is_bool(a) and isinstance(b, bool) and op in ('Eq', 'NotEq'):
        return a if (b == (op == 'Eq')) else z3.Not(a)
    x, y = _coerce(a, b)
    return _CMP[op](x, y)


def s_int(v, ex):
    """int(v) for a scalar (truncation toward zero)"""
    v = conc(v)
    if isinstance(v, bool):
        return int(v)
    if isinstance(v, int):
        return v
    if isinstance(v, Fraction):
        return int(v)
    if isinstance(v, BVInt):
        return v
    if isinstance(v, str):
        return int(v)
    if isz(v):
        if z3.is_int(v):
            return v
        if z3.is_bool(v):
            return tonum(v)
        if z3.is_real(v):
            if ex.entails(v >= 0):
                return z3.ToInt(v)
            return z3.If(v >= 0, z3.ToInt(v), -z3.ToInt(-v))
    raise Unsupported(f'int({v!r})')


def s_float(v):
    v = conc(v)
    if is_conc_num(v):
        return Fraction(v)
    if isz(v):
        return toreal(v)
    raise Unsupported(f'float({v!r})')


# ---- bit operations
def _bv(v):
    v = conc(v)
    if isinstance(v, BVInt):
        return v.bv
    if isinstance(v, (bool, int)):
        return z3.BitVecVal(int(v), BVInt.W)
    if isz(v) and z3.is_int(v):
        return z3.Int2BV(v, BVInt.W)
    raise Unsupported(f'bit operation on {v!r}')


def s_bitop(op, a, b):
    a, b = conc(a), conc(b)
    if isinstance(a, (bool, int)) and isinstance(b, (bool, int)):
        try:
            return {'BitAnd': operator.and_, 'BitOr': operator.or_, 'BitXor': operator.xor, 'LShift': operator.lshift, 'RShift': operator.rshift}[op](a, b)
        except ValueError:
            raise SymRaise('ValueError', 'negative shift count')
    ba = isinstance(a, bool) or (isz(a) and z3.is_bool(a))
    bb = isinstance(b, bool) or (isz(b) and z3.is_bool(b))
    if ba and bb:
        x, y = toz(a), toz(b)
        return {'BitAnd': z3.And, 'BitOr': z3.Or, 'BitXor': z3.Xor}[op](x, y)
    x, y = _bv(a), _bv(b)
    if op == 'BitAnd':
        return BVInt(x & y)
    if op == 'BitOr':
        return BVInt(x | y)
    if op == 'BitXor':
        return BVInt(x ^ y)
    if op == 'LShift':
        return BVInt(x << y)
    if op == 'RShift':
        return BVInt(x >> y)     # arithmetic shift, as for python/numpy signed ints
    raise Unsupported(op)


def s_invert(a):
    a = conc(a)
    if isinstance(a, bool):
        return not a          # numpy bool semantics (~np.bool_)
    if isinstance(a, int):
        return ~a
    if isz(a) and z3.is_bool(a):
        return z3.Not(a)
    if isinstance(a, BVInt):
        return BVInt(~a.bv)
    raise Unsupported('~ on ' + repr(a))


def s_ite(c, a, b):
    """if-then-else over scalars"""
    if isinstance(c, bool):
        return a if c else b
    if isinstance(a, Cx) or isinstance(b, Cx):
        a, b = _cx(a), _cx(b)
        return Cx(s_ite(c, a.re, b.re), s_ite(c, a.im, b.im))
    if isinstance(a, BVInt) or isinstance(b, BVInt):
        return BVInt(z3.If(c, _bv(a), _bv(b)))
    if a is b:
        return a
    x, y = toz(a), toz(b)
    if z3.is_bool(x) and z3.is_bool(y):
        return z3.If(c, x, y)
    x, y = _coerce(a, b)
    return z3.If(c, x, y)


def s_cast(v, kind):
    """astype for a scalar"""
    k = scalar_kind(v)
    if kind == k:
        return v
    if kind == 'complex':
        return _cx(v)
    if kind == 'float':
        if k == 'complex':
            return v.re     # numpy warns (ComplexWarning) and drops the imaginary part
        return Fraction(conc(v)) if is_conc_num(v) else toreal(v)
    if kind == 'int':
        if k == 'bool':
            return int(v) if is_conc_num(v) else tonum(v)
        if k == 'float':
            if is_conc_num(v):
                return int(v)
            return _trunc_to_int(toreal(v))
        raise Unsupported('complex -> int cast')
    if kind == 'bool':
        return tobool(v)
    raise Unsupported(f'cast to {kind}')


def _trunc_to_int(t, depth=0):
    """int(t) for a real term, keeping integer structure: trunc(ToReal(i)) = i, distributes over if-then-else"""
    t = z3.simplify(t) if depth == 0 else t
    if z3.is_app(t):
        k = t.decl().kind()
        if k == z3.Z3_OP_TO_REAL:
            return t.arg(0)
        if k == z3.Z3_OP_ITE and depth < 12:
            return z3.If(t.arg(0), _trunc_to_int(t.arg(1), depth + 1), _trunc_to_int(t.arg(2), depth + 1))
        if z3.is_rational_value(t):
            fr = t.as_fraction()
            return z3.IntVal(int(fr))
    return z3.If(t >= 0, z3.ToInt(t), -z3.ToInt(-t))


def s_equal_term(a, b):
    """z3 Bool (or python bool) stating equality of two scalars of any kind"""
    return s_cmp('Eq', a, b)
