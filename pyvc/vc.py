import ctypes
"""Obligations, discharge, vacuity covers, counter-model extraction, replay plumbing."""
import json, os, subprocess, sys, tempfile, time, traceback, multiprocessing as mp
from fractions import Fraction
import z3
from .values import *
from . import axioms, reduce as reduce_mod
from .frontend import Repo, repo_root
from .interp import Exec, explore, Path

Z3_TIMEOUT_MS = int(os.environ.get('VERIF_Z3_TIMEOUT_MS', '20000'))
_INCOMPLETE = z3.Bool('identification_incomplete!')
CVC5 = '/usr/bin/cvc5'


class Obl:
    """one proof obligation result"""
    def __init__(self, name, status, solver='', time_s=0.0, detail=None, kind='proof'):
        self.name = name
        self.status = status      # proved | violated | undecided | cover_ok | cover_fail | bounded_ok | bounded_fail | known
        self.solver = solver
        self.time_s = time_s
        self.detail = detail or {}
        self.kind = kind

    def to_json(self):
        return {'name': self.name, 'status': self.status, 'solver': self.solver, 'time_s': round(self.time_s, 4), 'kind': self.kind, 'detail': self.detail}


def mval(m, t):
    """python value of a term in a model"""
    if not isz(t):
        return t
    v = m.eval(t, model_completion=True)
    if z3.is_int_value(v):
        return v.as_long()
    if z3.is_rational_value(v):
        return Fraction(v.numerator_as_long(), v.denominator_as_long())
    if z3.is_true(v):
        return True
    if z3.is_false(v):
        return False
    if z3.is_bv_value(v):
        return v.as_long()
    if z3.is_algebraic_value(v):
        a = v.approx(20)
        return Fraction(a.numerator_as_long(), a.denominator_as_long())
    return str(v)


def jsonable(v):
    if isinstance(v, Fraction):
        return float(v) if v.denominator != 1 else int(v)
    if isinstance(v, (list, tuple)):
        return [jsonable(x) for x in v]
    if isinstance(v, dict):
        return {str(k): jsonable(x) for k, x in v.items()}
    if isinstance(v, complex):
        return [v.real, v.imag]
    if isinstance(v, (bool, int, float, str)) or v is None:
        return v
    try:
        import numpy as np
        if isinstance(v, np.ndarray):
            return jsonable(v.tolist())
        if isinstance(v, np.generic):
            return jsonable(v.item())
    except Exception:
        pass
    return repr(v)


def run_native(fn, timeout=30):
    """run fn() in a forked child with a wall-clock limit; returns ('ok', value) | ('timeout', None) | ('error', text)"""
    ctx = mp.get_context('fork')
    r, w = ctx.Pipe(False)

    def child():
        try:
            res = fn()
            w.send(('ok', jsonable(res)))
        except BaseException as e:     # noqa
            w.send(('error', f'{type(e).__name__}: {e}'))
        finally:
            w.close()
            os._exit(0)
    p = ctx.Process(target=child)
    p.start()
    w.close()
    if r.poll(timeout):
        try:
            out = r.recv()
        except EOFError:
            out = ('error', 'child died')
        p.join(5)
        if p.is_alive():
            p.kill()
        return out
    p.kill()
    p.join()
    return ('timeout', None)


def load_native():
    """import the real opticomlib from the tree under verification"""
    root = repo_root()
    if sys.path[0] != root:
        sys.path.insert(0, root)
    import importlib
    import matplotlib
    matplotlib.use('Agg')
    import opticomlib
    if not os.path.realpath(opticomlib.__file__).startswith(os.path.realpath(root)):
        for k in [k for k in sys.modules if k == 'opticomlib' or k.startswith('opticomlib.')]:
            del sys.modules[k]
        import opticomlib
        assert os.path.realpath(opticomlib.__file__).startswith(os.path.realpath(root)), opticomlib.__file__
    import opticomlib.typing, opticomlib.devices, opticomlib.utils, opticomlib.ppm, opticomlib.ook
    return opticomlib


class Ctx:
    """context handed to a clause function"""
    def __init__(self, prop, clause, tier='quick', seed=0):
        self.prop = prop
        self.clause = clause
        self.tier = tier
        self.seed = seed
        self.repo = Repo()
        self.results = []
        self.t0 = time.time()
        self.solver_time = 0.0
        self.notes = []
        self._cover_cache = {}

    # ---- exploration
    def paths(self, run, pre=(), setup=None, maxpaths=4096, allow_unsupported=False, expect_loops=False):
        ps = explore(self.repo, run, pre, maxpaths=maxpaths, setup=setup)
        # every loop contract installed by the clause must have met its loop on some path; otherwise the loop moved or disappeared and
        # whatever the paths say is not about the contracted code: undecided, and no path is handed to the clause
        specs, hits = set(), set()
        for p in ps:
            specs |= {k for k in getattr(p.ex, 'loopspecs', {}) if k[1] is not None}
            hits |= p.ex.__dict__.get('spec_hits', set())
        missing = sorted(specs - hits, key=str)
        if missing and ps and expect_loops:
            self.results.append(Obl(f'{self.clause}.loop-contract', 'undecided', detail={'reason': f'loop contract(s) {missing} never met their loop (moved, removed or not reached): the contract must be re-anchored'}))
            return []
        bad = [p for p in ps if p.kind == 'unsupported']
        if bad and not allow_unsupported:
            for p in bad[:3]:
                self.results.append(Obl(f'{self.clause}.path[{p.signature()}]', 'undecided', detail={'reason': 'unsupported construct: ' + p.value}))
        return [p for p in ps if p.kind != 'unsupported'] if not allow_unsupported else ps

    # ---- discharge
    def _check(self, hyps, goal, extra_terms=(), timeout=None, algebra=False):
        """returns (status, solver, seconds, model|None, smt2 text)"""
        hyps = [h for h in hyps if not (isinstance(h, bool) and h)]
        if any(isinstance(h, bool) and not h for h in hyps):
            return 'unsat', 'trivial', 0.0, None, ''
        hyps0 = list(hyps)
        neg = z3.Not(goal) if not isinstance(goal, bool) else z3.BoolVal(not goal)
        lem = axioms.instantiate(list(hyps) + [neg] + list(extra_terms), level='basic' if algebra in (True, 'basic') else 'all')
        if algebra in (True, 'full'):
            allt, _ = axioms.abstract_ufs(list(hyps) + lem + [neg])
            hyps, lem, neg = allt[:len(hyps)], allt[len(hyps):-1], allt[-1]
        t = time.time()
        r, s = z3.unknown, None
        # portfolio inside z3: default arithmetic first, then the legacy arithmetic solver (much stronger on the non-linear
        # real identities with uninterpreted functions that occur here)
        budget = timeout or Z3_TIMEOUT_MS
        order = (({}, min(budget, 6000)), ({'arith.solver': 2}, budget))
        if _nonlinear(list(hyps) + lem + [neg]):
            # products of unknowns: the legacy arithmetic solver first (short), then the default one, then the legacy one with the full budget
            order = (({'arith.solver': 2}, min(budget, 4000)), ({}, min(budget, 6000)), ({'arith.solver': 2}, budget))
        for cfg, tmo in order:
            s = z3.Solver()
            s.set('timeout', tmo)
            s.set('random_seed', 0)
            for k_, v_ in cfg.items():
                s.set(k_, v_)
            s.add(*hyps)
            s.add(*lem)
            s.add(neg)
            r = s.check()
            if r != z3.unknown:
                break
        dt = time.time() - t
        self.solver_time += dt
        smt2 = ''
        if r == z3.unknown and not algebra and not getattr(self, '_in_alt', False):
            # before the external solvers: the same obligation over the pure-arithmetic abstraction (special functions replaced by
            # constants, basic lemmas only).  It has fewer hypotheses, so 'unsat' there is conclusive.
            self._in_alt = True
            try:
                st_a, who_a, dt_a, _, _ = self._check(hyps0, goal, extra_terms, timeout=5000, algebra=True)
            except z3.Z3Exception:
                st_a, who_a, dt_a = 'unknown', '', 0
            finally:
                self._in_alt = False
            if st_a == 'unsat':
                return 'unsat', who_a, dt + dt_a, None, ''
        if r == z3.unknown and getattr(self, '_in_alt', False):
            return 'unknown', 'z3', dt, None, ''
        if r == z3.unknown:
            smt2 = s.to_smt2()
            r2, dt2, who = run_external(smt2)
            self.solver_time += dt2
            if r2 == 'unsat':
                return 'unsat', who, dt + dt2, None, smt2
            if r2 == 'sat':
                # no model through this path: the obligation stays undecided unless the concrete oracle refutes it
                return 'unknown', f'z3+{who}(sat, no model)', dt + dt2, None, smt2
            return 'unknown', 'z3+z3-4.8.12+cvc5', dt + dt2, None, smt2
        if r == z3.sat:
            return 'sat', 'z3', dt, s.model(), smt2
        return 'unsat', 'z3', dt, None, smt2

    def cover(self, name, hyps):
        """vacuity guard: the hypotheses under which something is proved must be satisfiable"""
        hyps = [h for h in hyps if not (isinstance(h, bool) and h)]
        if any(isinstance(h, bool) for h in hyps):
            self.results.append(Obl(f'{self.clause}.{name}', 'cover_fail', 'trivial', 0, kind='cover'))
            return False
        # a numeric witness (real special functions, sampled constants) settles satisfiability without the solver
        t = time.time()
        try:
            from . import numeval
            import random as _random
            zh = [h for h in hyps if isz(h)]
            if not any(z3.is_quantifier(h) for h in zh) and not _has_uf_app(zh):
                consts = numeval.free_consts(zh)
                rng = _random.Random(0)
                for k in range(400):
                    env = {}
                    for n_, c_ in consts.items():
                        if z3.is_int(c_):
                            env[n_] = rng.randint(0, 12)
                        elif z3.is_bool(c_):
                            env[n_] = rng.random() < 0.5
                        else:
                            env[n_] = rng.choice([rng.uniform(0.05, 3), rng.uniform(-3, 3), rng.uniform(0.5, 40)])
                    try:
                        if all(numeval.evaluate(h, env, 0, {}) is True for h in zh):
                            dt = time.time() - t
                            self.results.append(Obl(f'{self.clause}.{name}', 'cover_ok', 'numeric witness', dt, {'witness': {k_: round(v_, 6) if isinstance(v_, float) else v_ for k_, v_ in list(env.items())[:12]}}, kind='cover'))
                            return True
                    except (numeval.Bad, OverflowError, ZeroDivisionError, TypeError):
                        continue
        except z3.Z3Exception:
            pass
        s = z3.Solver()
        s.set('timeout', Z3_TIMEOUT_MS)
        s.add(*hyps)
        s.add(*axioms.instantiate(list(hyps)))
        t = time.time()
        r = s.check()
        dt = time.time() - t
        self.solver_time += dt
        st = 'cover_ok' if r == z3.sat else ('cover_fail' if r == z3.unsat else 'cover_unknown')
        self.results.append(Obl(f'{self.clause}.{name}', st, 'z3', dt, kind='cover'))
        return r == z3.sat

    def prove(self, name, hyps, goal, replay=None, inst=None, path=None, words=None, extra_terms=(), small=(), algebra=False):
        """discharge  hyps => goal.  `replay(model)` -> dict(confirmed=bool, inputs=..., observed=..., expected=...)"""
        full = f'{self.clause}.{name}'
        hyps = list(hyps)
        if path is not None and inst is not None:
            outer, js = inst
            hyps += reduce_mod.instances(path.ex, outer, js)
        try:
            st, solver, dt, m, smt2 = self._check(hyps, goal, extra_terms, algebra=algebra)
        except z3.Z3Exception as e:
            self.results.append(Obl(full, 'undecided', 'z3', 0, {'reason': f'solver exception {e}'}))
            return False
        if st == 'unsat':
            d = {}
            if words:
                d['words'] = words
            self.results.append(Obl(full, 'proved', solver, dt, d))
            return True
        if st == 'unknown':
            rep = self._native_refutation(replay)
            if rep is not None:
                self.results.append(Obl(full, 'violated', solver + '+native', dt, {'reason': 'solver returned unknown; the obligation\'s concrete oracle fails on the real code for in-domain inputs', 'replay': jsonable(rep), 'confirmed': True, 'words': words or ''}))
                return False
            self.results.append(Obl(full, 'undecided', solver, dt, {'reason': 'solver returned unknown / timeout'}))
            return False
        # sat: a counter-model; prefer a small one for the replay
        weak = any(isz(h) and h.eq(_INCOMPLETE) for h in hyps)
        if small:
            try:
                st2, _, dt2, m2, _ = self._check(hyps + list(small), goal, extra_terms, timeout=5000, algebra=algebra)
                if st2 == 'sat':
                    m = m2
            except z3.Z3Exception:
                pass
        detail = {'model': model_summary(m)}
        if words:
            detail['words'] = words
        if replay is not None:
            try:
                rep = replay(m)
            except Exception as e:     # replay harness failure is not a confirmation
                rep = {'confirmed': False, 'error': f'{type(e).__name__}: {e}', 'trace': traceback.format_exc()[-800:]}
            detail['replay'] = jsonable(rep)
            detail['confirmed'] = bool(rep.get('confirmed'))
        else:
            detail['confirmed'] = False
        if weak and not detail['confirmed']:
            detail['reason'] = 'counter-model on a path where the identification of two operator applications (fft / filter outputs) could not be decided by the solver: not a violation'
            self.results.append(Obl(full, 'undecided', solver, dt, detail))
            return False
        self.results.append(Obl(full, 'violated', solver, dt, detail))
        return False

    def _native_refutation(self, replay):
        """when the solver cannot decide: run the obligation's concrete oracle on default in-domain inputs (model=None).
        A confirmed failure is reported as a violation with that input; anything else leaves the obligation undecided."""
        if replay is None:
            return None
        try:
            rep = replay(None)
        except Exception:
            return None
        return rep if isinstance(rep, dict) and rep.get('confirmed') else None

    def prove_congruent(self, name, hyps, a, b, replay=None, words=None, positive=(), pair_timeout=4000):
        """prove a == b where both sides nest special functions: congruence closure modulo polynomial identities.
        Innermost applications f(x), f(y) are identified when x == y is proved (a small arithmetic query each); identified
        applications are replaced by one fresh constant carrying the function's sign/square facts; repeat outwards; the
        final query is a polynomial identity.  Every identification is backed by an unsat answer, so the method is sound.
        `positive`: terms known (hypothesis) to be > 0; used to give sqrt(t) a strict sign without its defining equation."""
        full = f'{self.clause}.{name}'
        t0 = time.time()
        hyps = [h for h in hyps if not (isinstance(h, bool) and h)]
        gsyms = _symbols([a, b])
        hyps = [h for h in hyps if _symbols([h]) <= gsyms]
        npos = len(positive)
        terms = [z3.simplify(h) for h in hyps] + [z3.simplify(t) for t in positive] + [z3.simplify(a), z3.simplify(b)]
        H = len(hyps)
        signs, defs = [], []
        nvar = nq = 0

        def simple(h):
            return not axioms.collect([h]) and not _has_uf(h) and _size(h) <= 12

        def attempt(goal, level):
            s = z3.Solver()
            s.set('timeout', pair_timeout if level == 0 else pair_timeout // 2)
            hy = [h for h in terms[:H] if simple(h)] if level == 0 else [h for h in terms[:H] if not axioms.collect([h]) and not _has_uf(h)]
            s.add(*hy)
            s.add(*signs)
            if level > 0:
                s.add(*defs)
                s.add(*[t > 0 for t in terms[H:H + npos] if not axioms.collect([t])])
            s.add(z3.Not(goal))
            r = s.check()
            if r == z3.sat and level == 0:
                # a genuine refutation if the model also satisfies everything the stronger level would add
                m = s.model()
                heavy = [h for h in terms[:H] if not axioms.collect([h]) and not _has_uf(h)] + list(defs) + [t > 0 for t in terms[H:H + npos] if not axioms.collect([t])]
                if all(z3.is_true(z3.simplify(m.eval(c, model_completion=True))) for c in heavy):
                    return 'refuted'
            return r

        def quick(goal):
            for level in (0, 1):
                r = attempt(goal, level)
                if r == z3.unsat:
                    return True
                if r == 'refuted' or (r == z3.sat and level == 1):
                    return False
            return False
        for _ in range(16):
            apps = axioms.collect(terms[-2:])
            allapps = [t for ts in apps.values() for t in ts]
            if not allapps:
                break
            inner = [t for t in allapps if not axioms.collect(list(t.children()))]
            if not inner:
                break
            subs = []
            by_decl = {}
            for t in inner:
                by_decl.setdefault(t.decl().name(), []).append(t)
            for dn, ts in by_decl.items():
                classes = []
                for t in ts:
                    for cl in classes:
                        r = cl[0]
                        nq += 1
                        if quick(z3.And(*[t.arg(k) == r.arg(k) for k in range(t.num_args())])):
                            cl.append(t)
                            break
                    else:
                        classes.append([t])
                for cl in classes:
                    v = z3.Real(f'cc!{dn}!{nvar}') if cl[0].sort() == z3.RealSort() else z3.Int(f'cc!{dn}!{nvar}')
                    nvar += 1
                    x = cl[0].arg(0)
                    if dn == 'sqrt':
                        if z3.is_rational_value(x) and x.as_fraction() > 0:
                            signs.append(v > 0)
                            defs.append(v * v == x)
                        else:
                            ispos = False
                            for pt in terms[H:H + npos]:
                                nq += 1
                                if pt.eq(x) or quick(pt == x):
                                    ispos = True
                                    break
                            signs.append(v > 0 if ispos else v >= 0)
                            defs.append(z3.Implies(x >= 0, v * v == x))
                    elif dn in ('pow10', 'exp'):
                        signs.append(v > 0)
                    elif dn == 'erfc':
                        signs += [v > 0, v < 2]
                    elif dn == 'powr':
                        defs.append(z3.Implies(x > 0, v > 0))
                    for t in cl:
                        subs.append((t, v))
            terms = [z3.simplify(z3.substitute(x, *subs)) for x in terms]
            defs = [z3.simplify(z3.substitute(x, *subs)) for x in defs]
        r = attempt(terms[-2] == terms[-1], 0)
        if r != z3.unsat:
            s = z3.Solver()
            s.set('timeout', Z3_TIMEOUT_MS)
            s.add(*[h for h in terms[:H] if not axioms.collect([h]) and not _has_uf(h)])
            s.add(*signs)
            s.add(*defs)
            s.add(terms[-2] != terms[-1])
            r = s.check()
            m = s.model() if r == z3.sat else None
        dt = time.time() - t0
        self.solver_time += dt
        d = {'words': words or '', 'method': f'congruence closure modulo arithmetic: {nvar} function classes, {nq} identification queries'}
        if r == z3.unsat:
            self.results.append(Obl(full, 'proved', 'z3', dt, d))
            return True
        if r == z3.unknown:
            rep = self._native_refutation(replay)
            if rep is not None:
                d.update(reason='identification failed and the final query is unknown; the obligation\'s concrete oracle fails on the real code for in-domain inputs', replay=jsonable(rep), confirmed=True)
                self.results.append(Obl(full, 'violated', 'z3+native', dt, d))
                return False
            d['reason'] = 'final polynomial query unknown'
            self.results.append(Obl(full, 'undecided', 'z3', dt, d))
            return False
        d['model'] = model_summary(m)
        if replay is not None:
            try:
                rep = replay(m)
            except Exception as e:
                rep = {'confirmed': False, 'error': f'{type(e).__name__}: {e}'}
            d['replay'] = jsonable(rep)
            d['confirmed'] = bool(rep.get('confirmed'))
        else:
            d['confirmed'] = False
        self.results.append(Obl(full, 'violated', 'z3', dt, d))
        return False

    def discharge_loop_obls(self, path, prefix='', replay=None):
        """prove the invariant obligations recorded on a path by LoopSpec"""
        n = 0
        for (name, pc, conj, foralls, words, hyp_foralls) in path.ex.obls:
            for i, c in enumerate(conj):
                self.prove(f'{prefix}{name}.c{i}[{path.signature()}]', pc, c, words=words, replay=replay)
                n += 1
            for i, f in enumerate(foralls):
                k = z3.Int(f'k!sk{i}')
                hyps = list(pc) + [h(k) for h in hyp_foralls]
                self.prove(f'{prefix}{name}.forall{i}[{path.signature()}]', hyps, f(k), words=words + ' (universal conjunct at a Skolem index)', replay=replay)
                n += 1
        return n

    def fail(self, name, why, confirmed=False, detail=None):
        d = {'reason': why, 'confirmed': confirmed}
        d.update(detail or {})
        self.results.append(Obl(f'{self.clause}.{name}', 'violated', 'executor', 0, d))

    def ok(self, name, words=None, solver='executor'):
        self.results.append(Obl(f'{self.clause}.{name}', 'proved', solver, 0, {'words': words} if words else {}))

    def undecided(self, name, why):
        self.results.append(Obl(f'{self.clause}.{name}', 'undecided', '', 0, {'reason': why}))

    def bounded(self, name, ok, detail=None):
        d = detail or {}
        fl = d.get('failures')
        # an exception inside the harness itself (not a contract failure observed on the real code) is a checker error: undecided
        if not ok and (fl == 'error' or (isinstance(fl, (list, tuple)) and len(fl) >= 1 and fl[0] == 'error')):
            self.results.append(Obl(f'{self.clause}.{name}', 'undecided', 'native', 0, {'reason': 'bounded harness raised: ' + str(d.get('error', fl))[:600]}, kind='bounded'))
            return
        self.results.append(Obl(f'{self.clause}.{name}', 'bounded_ok' if ok else 'bounded_fail', 'native', 0, detail or {}, kind='bounded'))

    def note(self, text):
        self.notes.append(text)


def _has_uf_app(ts):
    """an application of a function that numeric evaluation would have to invent (array element functions, reductions); special functions are fine"""
    from .numeval import SPECIAL
    seen, st = set(), list(ts)
    while st:
        x = st.pop()
        if x.get_id() in seen:
            continue
        seen.add(x.get_id())
        if z3.is_app(x) and x.num_args() > 0 and x.decl().kind() == z3.Z3_OP_UNINTERPRETED and x.decl().name() not in SPECIAL:
            return True
        st.extend(x.children())
    return False


def _nonlinear(ts):
    seen, st = set(), [t for t in ts if isz(t)]
    while st:
        x = st.pop()
        if x.get_id() in seen:
            continue
        seen.add(x.get_id())
        if z3.is_app(x) and x.decl().kind() == z3.Z3_OP_MUL:
            if z3.is_real(x) and sum(1 for c in x.children() if not (z3.is_int_value(c) or z3.is_rational_value(c))) >= 2:
                return True            # products of real unknowns (integer products such as n*sps are handled well by the default solver)
        if z3.is_quantifier(x):
            st.append(x.body())
        else:
            st.extend(x.children())
    return False


def _symbols(ts):
    seen, out, st = set(), set(), list(ts)
    while st:
        x = st.pop()
        if x.get_id() in seen:
            continue
        seen.add(x.get_id())
        if z3.is_app(x) and x.decl().kind() == z3.Z3_OP_UNINTERPRETED:
            out.add(x.decl().name())
        st.extend(x.children())
    return out


def _size(t, cap=64):
    n, seen, st = 0, set(), [t]
    while st and n <= cap:
        x = st.pop()
        if x.get_id() in seen:
            continue
        seen.add(x.get_id())
        n += 1
        st.extend(x.children())
    return n


def _has_uf(t):
    seen, st = set(), [t]
    while st:
        x = st.pop()
        if x.get_id() in seen:
            continue
        seen.add(x.get_id())
        if z3.is_app(x) and x.decl().kind() == z3.Z3_OP_UNINTERPRETED and x.num_args() > 0:
            return True
        st.extend(x.children())
    return False


def model_summary(m, limit=40):
    out = {}
    for d in m.decls()[:limit]:
        try:
            if d.arity() == 0:
                out[d.name()] = str(m[d])
            else:
                out[d.name()] = str(m[d])[:200]
        except Exception:
            pass
    return out


def run_external(smt2, timeout_s=20):
    """second and third back end on the SMT-LIB export of a query: z3 4.8.12 (/usr/bin/z3) and cvc5 1.0.3, run concurrently.
    Returns ('sat'|'unsat'|'unknown', seconds, solver name).  Only definite answers are used."""
    t0 = time.time()
    d = os.environ.get('TMPDIR', '/tmp')
    procs = []
    files = []
    try:
        for name, cmd in (('z3-4.8.12', ['/usr/bin/z3', f'-T:{int(timeout_s)}']), ('cvc5', [CVC5, f'--tlimit={int(timeout_s * 1000)}', '--nl-ext-tplanes'])):
            if not os.path.exists(cmd[0]):
                continue
            f = tempfile.NamedTemporaryFile('w', suffix='.smt2', delete=False, dir=d)
            f.write(('(set-logic ALL)\n' if name == 'cvc5' else '') + smt2)
            f.close()
            files.append(f.name)
            procs.append((name, subprocess.Popen(cmd + [f.name], stdout=subprocess.PIPE, stderr=subprocess.DEVNULL, text=True)))
        deadline = t0 + timeout_s + 3
        result = ('unknown', 0.0, '')
        pending = list(procs)
        while pending and time.time() < deadline:
            for name, p in list(pending):
                if p.poll() is not None:
                    out = (p.stdout.read() or '').strip().split('\n')[0].strip()
                    pending.remove((name, p))
                    if out in ('sat', 'unsat'):
                        result = (out, time.time() - t0, name)
                        pending = []
                        break
            else:
                time.sleep(0.02)
                continue
            break
        return result if result[0] != 'unknown' else ('unknown', time.time() - t0, '')
    finally:
        for _, p in procs:
            if p.poll() is None:
                p.kill()
        for fn_ in files:
            try:
                os.unlink(fn_)
            except OSError:
                pass


def run_cvc5(smt2, timeout_s=30):
    r, dt, _ = run_external(smt2, timeout_s)
    return r, dt


# ----------------------------------------------------------------------------------------- clause execution
def run_clause(args):
    """worker entry: (property id, module name, clause function name, tier, seed) -> dict"""
    prop, modname, fname, tier, seed = args
    import importlib
    t0 = time.time()
    try:
        mod = importlib.import_module(modname)
        fn = getattr(mod, fname)
        ctx = Ctx(prop, getattr(fn, 'clause_name', fname), tier, seed)
        try:
            fn(ctx)
        except Unsupported as u:
            ctx.results.append(Obl(ctx.clause, 'undecided', detail={'reason': 'unsupported: ' + str(u), 'trace': traceback.format_exc()[-1500:]}))
        except SymRaise as r:
            ctx.results.append(Obl(ctx.clause, 'undecided', detail={'reason': f'uncaught symbolic exception {r.cls} {r.msg}', 'trace': traceback.format_exc()[-1500:]}))
        except (RecursionError, ctypes.ArgumentError) as r:
            # terms nested too deeply for the solver bindings (e.g. an uncontracted loop unrolled many times): no verdict
            ctx.results.append(Obl(ctx.clause, 'undecided', detail={'reason': f'term too deep for the solver interface: {type(r).__name__}', 'trace': traceback.format_exc()[-800:]}))
        return {'clause': ctx.clause, 'results': [o.to_json() for o in ctx.results], 'used': list(ctx.repo.used.values()),
                'solver_time': ctx.solver_time, 'wall': time.time() - t0, 'notes': ctx.notes, 'crash': None}
    except BaseException as e:    # noqa  checker crash -> exit 3 upstream
        return {'clause': fname, 'results': [], 'used': [], 'solver_time': 0, 'wall': time.time() - t0, 'notes': [],
                'crash': f'{type(e).__name__}: {e}\n{traceback.format_exc()[-3000:]}'}


def clause(name, min_obl=1, tier='quick'):
    def deco(f):
        f.clause_name = name
        f.min_obl = min_obl
        f.tier = tier
        f.is_clause = True
        return f
    return deco
