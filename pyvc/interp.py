"""Path-wise symbolic executor over the Python AST of the real repository functions (the VC generator).

Exploration is by decision-list re-execution: `explore(run, pre)` runs `run(ex)` from the top once per
feasible path; every symbolic branch consults / extends the decision list.
"""
import ast, itertools
from fractions import Fraction
import numpy as np
import z3
from .values import *
from . import values as V


class Ret(Exception):
    def __init__(self, v):
        self.v = v


class Brk(Exception):
    pass


class Cont(Exception):
    pass


class PathEnd(Exception):
    """the current path ends here (e.g. end of an arbitrary loop iteration after the invariant was recorded)"""


class Infeasible(Exception):
    """path condition became unsatisfiable"""


def _mutable_result(v):
    if isinstance(v, (Arr, Obj, list, dict, set, np.ndarray)):
        return True
    if isinstance(v, tuple):
        return any(_mutable_result(x) for x in v)
    return False


def _memo_decorated(node):
    for d in getattr(node, 'decorator_list', []) or []:
        t = d.func if isinstance(d, ast.Call) else d
        name = t.attr if isinstance(t, ast.Attribute) else (t.id if isinstance(t, ast.Name) else None)
        if name in ('lru_cache', 'cache'):
            return True
    return False


class Fn:
    def __init__(self, mod, node, closure=None, cls=None):
        self.mod = mod
        self.node = node
        self.closure = closure
        self.cls = cls

    @property
    def name(self):
        return getattr(self.node, 'name', '<lambda>')

    def qual(self):
        return f'{self.mod}.{self.cls + "." if self.cls else ""}{self.name}'

    def __repr__(self):
        return f'<Fn {self.qual()}>'


class Bound:
    def __init__(self, fn, selfv):
        self.fn = fn
        self.selfv = selfv


class ClsRef:
    def __init__(self, name):
        self.name = name

    def __eq__(self, o):
        return isinstance(o, ClsRef) and o.name == self.name

    def __hash__(self):
        return hash(('cls', self.name))

    def __repr__(self):
        return f'<class {self.name}>'


class Ext:
    """reference to something outside the repository, by dotted path ('numpy.fft.fft', 'warnings', ...)"""
    def __init__(self, path):
        self.path = path

    def __eq__(self, o):
        return isinstance(o, Ext) and o.path == self.path

    def __hash__(self):
        return hash(('ext', self.path))

    def __repr__(self):
        return f'<ext {self.path}>'


class BI:
    """python builtin by name"""
    def __init__(self, n):
        self.n = n

    def __eq__(self, o):
        return isinstance(o, BI) and o.n == self.n

    def __hash__(self):
        return hash(('bi', self.n))

    def __repr__(self):
        return f'<builtin {self.n}>'


class ArrMeth:
    def __init__(self, arr, name):
        self.arr = arr
        self.name = name


class PyMeth:
    """method of a concrete python value (str/list/dict)"""
    def __init__(self, obj, name):
        self.obj = obj
        self.name = name


class SliceV:
    def __init__(self, lo, hi, step):
        self.lo, self.hi, self.step = lo, hi, step


class SuperRef:
    def __init__(self, base, selfv):
        self.base = base
        self.selfv = selfv


NEWAXIS = Ext('numpy.newaxis')
BUILTINS = {'len', 'int', 'float', 'str', 'bool', 'complex', 'isinstance', 'type', 'abs', 'min', 'max', 'range', 'zip',
            'list', 'tuple', 'dict', 'map', 'print', 'callable', 'getattr', 'setattr', 'delattr', 'dir', 'enumerate', 'sum',
            'round', 'any', 'all', 'super', 'hasattr', 'sorted', 'slice'}
EXC_NAMES = {'ValueError', 'TypeError', 'KeyError', 'BufferError', 'NotImplementedError', 'Exception', 'EOFError',
             'AttributeError', 'AssertionError', 'ZeroDivisionError', 'IndexError', 'UserWarning', 'RuntimeWarning'}


def loops_of(node):
    """loops of a function in source order, not descending into nested defs/lambdas"""
    out = []

    def walk(n):
        for c in ast.iter_child_nodes(n):
            if isinstance(c, (ast.FunctionDef, ast.Lambda, ast.ClassDef)):
                continue
            if isinstance(c, (ast.While, ast.For)):
                out.append(c)
            walk(c)
    walk(node)
    return out


class Exec:
    MAXDEPTH = 40

    def __init__(self, repo, decisions=(), pre=(), timeout_ms=5000):
        self.repo = repo
        self.dec = list(decisions)
        self.taken = []          # list of (decision, forced)
        self.pc = list(pre)
        self.events = []         # effect log
        self.side = []           # definedness obligations: (pc snapshot, condition, text)
        self.obls = []           # invariant obligations recorded by loop handling: (name, pc snapshot, goal-list)
        # tic()/toc() (wall-clock bookkeeping for .execution_time) are dropped from the verified text
        self.overrides = {'utils.tic': lambda ex, a, k: None, 'utils.toc': lambda ex, a, k: ex.newvar('toc', 'real')}
        self.loopspecs = {}      # (qualname, ordinal) -> LoopSpec
        self.gv = None           # Obj for the global variable object
        self.timeout_ms = timeout_ms
        self.depth = 0
        self.stack = []
        self.modcache = {}
        self.fresh = itertools.count()
        self.param_provs = {}    # prov id -> description (buffers owned by the caller)
        self.solver_calls = 0
        self.unroll_limit = 4096
        self.foralls = []        # universally quantified facts: functions index-term -> z3 Bool
        self.index_terms = []    # terms at which they are instantiated
        self.index_shifts = [0]

    def add_forall(self, f):
        self.foralls.append(f)
        for t in self.index_terms:
            for sh in self.index_shifts:
                self.assume(f(t - sh if not (isinstance(sh, int) and sh == 0) else t))

    def add_index_term(self, t):
        self.index_terms.append(t)
        for f in self.foralls:
            for sh in self.index_shifts:
                self.assume(f(t - sh if not (isinstance(sh, int) and sh == 0) else t))

    def add_index_shift(self, sh):
        """an offset by which indices are translated (concatenation): universal facts are also instantiated at t - sh"""
        if isinstance(sh, int) and sh == 0:
            return
        self.index_shifts.append(sh)
        for f in self.foralls:
            for t in self.index_terms:
                self.assume(f(t - sh))

    # ------------------------------------------------------------ solver helpers
    def _solver(self):
        s = z3.Solver()
        s.set('timeout', self.timeout_ms)
        s.add(*self.pc)
        return s

    def feasible(self, c):
        s = self._solver()
        s.add(c)
        self.solver_calls += 1
        return s.check() != z3.unsat

    def entails(self, c):
        if isinstance(c, bool):
            return c
        c = z3.simplify(c)
        if z3.is_true(c):
            return True
        if z3.is_false(c):
            return False
        s = self._solver()
        s.add(z3.Not(c))
        self.solver_calls += 1
        return s.check() == z3.unsat

    def concretize(self, t):
        """python int if the path condition forces the integer term t to one value, else None"""
        t = conc(t)
        if isinstance(t, int):
            return t
        t = z3.simplify(tonum(t))
        if z3.is_int_value(t):
            return t.as_long()
        s = self._solver()
        self.solver_calls += 1
        if s.check() != z3.sat:
            return None
        v = s.model().eval(t, model_completion=True)
        if not z3.is_int_value(v):
            return None
        return v.as_long() if self.entails(t == v) else None

    def assume(self, c):
        if isinstance(c, bool):
            if not c:
                raise Infeasible()
            return
        self.pc.append(c)

    def defined(self, cond, text):
        if isinstance(cond, bool):
            if cond:
                return
            cond = z3.BoolVal(False)
        self.side.append((list(self.pc), cond, text, self.where()))

    def where(self):
        return self.stack[-1] if self.stack else '?'

    def newvar(self, name, sort='real'):
        n = f'{name}!{next(self.fresh)}'
        return {'real': z3.Real, 'int': z3.Int, 'bool': z3.Bool}[sort](n)

    def event(self, *e):
        self.events.append(e)

    # ------------------------------------------------------------ branching
    def branch(self, c):
        """decide a symbolic condition -> python bool; extends the path condition"""
        if isinstance(c, (bool, np.bool_)):
            return bool(c)
        c = z3.simplify(c)
        if z3.is_true(c):
            return True
        if z3.is_false(c):
            return False
        i = len(self.taken)
        if i < len(self.dec):
            d, forced = self.dec[i]
        else:
            ft = self.feasible(c)
            ff = self.feasible(z3.Not(c))
            if ft and ff:
                d, forced = True, False
            elif ft:
                d, forced = True, True
            elif ff:
                d, forced = False, True
            else:
                raise Infeasible()
        self.taken.append((d, forced))
        self.pc.append(c if d else z3.Not(c))
        return d

    def choice(self, label):
        """non-deterministic boolean (both alternatives explored)"""
        i = len(self.taken)
        if i < len(self.dec):
            d, forced = self.dec[i]
        else:
            d, forced = True, False
        self.taken.append((d, forced))
        return d

    def truth(self, v):
        if isinstance(v, Arr):
            if v.ndim == 0:
                return self.branch(tobool(v.at()))
            if all(isinstance(d, int) for d in v.shape):
                n = 1
                for d in v.shape:
                    n *= d
                if n == 1:
                    return self.branch(tobool(v.elem(tuple(0 for _ in v.shape))))
            raise SymRaise('ValueError', 'truth value of an array is ambiguous')
        if isinstance(v, np.ndarray):
            return bool(v)
        if isinstance(v, (Obj, Fn, Bound, ClsRef, Ext, BI, FStr)):
            return True
        return self.branch(tobool(v))

    # ------------------------------------------------------------ name resolution
    def module_name(self, mod, name):
        m = self.repo.mods[mod]
        if name == 'gv' and (name in m.assigns or m.imports.get(name, (None,))[0] == 'repo'):
            if self.gv is None:
                raise Unsupported('gv used but no global state supplied by the contract')
            return self.gv
        if name in m.functions:
            return Fn(mod, m.functions[name])
        if name in m.classes:
            return ClsRef(name)
        if name in m.imports:
            imp = m.imports[name]
            if imp[0] == 'ext':
                from . import extern
                v = extern.ext_value(self, imp[1])
                return Ext(imp[1]) if v is None else v
            _, rmod, rname = imp
            return self.module_name(rmod, rname)
        if name in m.assigns:
            key = (mod, name)
            if key not in self.modcache:
                self.modcache[key] = self.ev(m.assigns[name], {'__mod__': mod})
            return self.modcache[key]
        raise KeyError(name)

    def lookup(self, name, env):
        e = env
        while e is not None:
            if name in e:
                return e[name]
            e = e.get('__parent__')
        try:
            return self.module_name(env['__mod__'], name)
        except KeyError:
            pass
        if name in BUILTINS:
            return BI(name)
        if name in EXC_NAMES:
            return BI(name)
        raise Unsupported(f'unknown name {name}')

    # ------------------------------------------------------------ calls
    def call_fn(self, fn, args, kw):
        q = fn.qual()
        if q in self.overrides:
            return self.overrides[q](self, list(args), dict(kw))
        self.repo.note_used(fn.mod, fn.node, fn.cls)
        node = fn.node
        for d in getattr(node, 'decorator_list', []) or []:
            t = d.func if isinstance(d, ast.Call) else d
            dn = t.attr if isinstance(t, ast.Attribute) else (t.id if isinstance(t, ast.Name) else '?')
            if dn not in ('lru_cache', 'cache', 'vectorize', 'staticmethod', 'classmethod', 'property', 'setter', 'wraps'):
                raise Unsupported(f'decorator {dn} on {q} (no assumed contract)')
        memo = _memo_decorated(node)
        if memo:
            # functools.lru_cache / cache: the first call with a given key fixes the result for the rest of the process, so anything
            # the body reads besides its arguments (the mutable global variable object, module state) leaks from earlier calls
            self.memo_stack = getattr(self, 'memo_stack', []) + [q]
            try:
                res = self._call_fn_body(fn, args, kw)
            finally:
                self.memo_stack = self.memo_stack[:-1]
            if _mutable_result(res):
                # every caller with the same arguments receives the very same mutable object: a write by one is seen by all later ones
                self.event('memo_mutable_result', q, self.where())
            return res
        return self._call_fn_body(fn, args, kw)

    def _call_fn_body(self, fn, args, kw):
        q = fn.qual()
        node = fn.node
        a = node.args
        env = {'__mod__': fn.mod, '__parent__': fn.closure, '__fn__': fn}
        if fn.cls:
            env['__class__'] = fn.cls
        kw = dict(kw)
        params = [p.arg for p in a.posonlyargs + a.args]
        nd = len(a.defaults)
        args = list(args)
        for i, p in enumerate(params):
            if i < len(args):
                if p in kw:
                    raise SymRaise('TypeError', f'multiple values for {p}')
                env[p] = args[i]
            elif p in kw:
                env[p] = kw.pop(p)
            elif i >= len(params) - nd:
                env[p] = self.ev(a.defaults[i - (len(params) - nd)], {'__mod__': fn.mod, '__parent__': fn.closure})
            else:
                raise SymRaise('TypeError', f'missing argument {p}')
        if len(args) > len(params):
            if a.vararg:
                env[a.vararg.arg] = tuple(args[len(params):])
            else:
                raise SymRaise('TypeError', 'too many positional arguments')
        elif a.vararg:
            env[a.vararg.arg] = ()
        for p, d in zip(a.kwonlyargs, a.kw_defaults):
            if p.arg in kw:
                env[p.arg] = kw.pop(p.arg)
            elif d is not None:
                env[p.arg] = self.ev(d, {'__mod__': fn.mod, '__parent__': fn.closure})
            else:
                raise SymRaise('TypeError', f'missing keyword {p.arg}')
        if a.kwarg:
            env[a.kwarg.arg] = dict(kw)
        elif kw:
            raise SymRaise('TypeError', f'unexpected keyword {list(kw)}')
        self.depth += 1
        if self.depth > self.MAXDEPTH:
            raise Unsupported('call depth')
        self.stack.append(q)
        try:
            if isinstance(node, ast.Lambda):
                return self.ev(node.body, env)
            try:
                self.block(node.body, env)
            except Ret as r:
                return r.v
            return None
        finally:
            self.depth -= 1
            self.stack.pop()

    def instantiate(self, clsname, args, kw):
        q = f'{self.repo.classes[clsname].mod}.{clsname}'
        if q in self.overrides:
            return self.overrides[q](self, list(args), dict(kw))
        o = Obj(clsname)
        o.by_ctor = True
        m = self.repo.method(clsname, '__init__')
        if m:
            ci, node = m
            self.call_fn(Fn(ci.mod, node, cls=ci.name), [o] + list(args), kw)
        return o

    def get_method(self, obj, name):
        m = self.repo.method(obj.cls, name)
        if m is None:
            return None
        ci, node = m
        return Bound(Fn(ci.mod, node, cls=ci.name), obj)

    def call(self, f, args, kw):
        from . import extern
        if isinstance(f, Fn):
            return self.call_fn(f, args, kw)
        if isinstance(f, Bound):
            return self.call_fn(f.fn, [f.selfv] + list(args), kw)
        if isinstance(f, ClsRef):
            return self.instantiate(f.name, args, kw)
        if isinstance(f, BI):
            return extern.call_builtin(self, f.n, args, kw)
        if isinstance(f, Ext):
            return extern.call_ext(self, f.path, args, kw)
        if isinstance(f, ArrMeth):
            return extern.call_arrmeth(self, f.arr, f.name, args, kw)
        if isinstance(f, PyMeth):
            return extern.call_pymeth(self, f.obj, f.name, args, kw)
        if isinstance(f, Obj):
            m = self.get_method(f, '__call__')
            if m:
                return self.call(m, args, kw)
        if callable(f) and getattr(f, '_pyvc_native', False):
            return f(self, *args, **kw)
        raise Unsupported(f'call of {f!r}')

    # ------------------------------------------------------------ statements
    def block(self, stmts, env):
        for st in stmts:
            self.stmt(st, env)

    def stmt(self, st, env):
        if isinstance(st, ast.Expr):
            if isinstance(st.value, ast.Constant):
                return
            self.ev(st.value, env)
            return
        if isinstance(st, ast.Assign):
            v = self.ev(st.value, env)
            for t in st.targets:
                self.assign(t, v, env)
            return
        if isinstance(st, ast.AnnAssign):
            if st.value is not None:
                self.assign(st.target, self.ev(st.value, env), env)
            return
        if isinstance(st, ast.AugAssign):
            from . import arrays
            cur = self.ev(st.target, env)
            val = self.ev(st.value, env)
            if isinstance(cur, (Arr, np.ndarray)):
                # in-place numpy update: same buffer, dtype must be able to hold the result
                cur = arrays.lift(cur)
                snap = Arr(cur.shape, cur.elem, cur.kind, np_dtype=cur.np_dtype)      # contents before the update (cur is mutated below)
                new = self.binop(st.op, snap, val)
                if isinstance(new, Arr) and KINDS.index(new.kind) > KINDS.index(cur.kind) and not (isinstance(st.op, ast.Div) and cur.kind == 'float'):
                    raise SymRaise('UFuncTypeError', f'cannot cast {new.kind} to {cur.kind} in place')
                self.note_store(cur)
                if cur.view:
                    raise Unsupported('in-place update through a view')
                cur.elem = new.elem
                return
            self.assign(st.target, self.binop(st.op, cur, val), env)
            return
        if isinstance(st, ast.If):
            if self.truth(self.ev(st.test, env)):
                self.block(st.body, env)
            else:
                self.block(st.orelse, env)
            return
        if isinstance(st, (ast.While, ast.For)):
            self.loop(st, env)
            return
        if isinstance(st, ast.Return):
            raise Ret(self.ev(st.value, env) if st.value is not None else None)
        if isinstance(st, ast.Raise):
            e = st.exc
            if e is None:
                raise SymRaise('Exception')
            if isinstance(e, ast.Call) and isinstance(e.func, ast.Name):
                raise SymRaise(e.func.id)
            if isinstance(e, ast.Name):
                v = self.lookup(e.id, env) if e.id not in EXC_NAMES else None
                if isinstance(v, tuple) and v and v[0] == 'exc':
                    raise SymRaise(v[1])
                raise SymRaise(e.id)
            raise Unsupported('raise ' + ast.dump(e)[:60])
        if isinstance(st, ast.Assert):
            if not self.truth(self.ev(st.test, env)):
                raise SymRaise('AssertionError')
            return
        if isinstance(st, ast.Pass):
            return
        if isinstance(st, ast.Break):
            raise Brk()
        if isinstance(st, ast.Continue):
            raise Cont()
        if isinstance(st, ast.FunctionDef):
            env[st.name] = Fn(env['__mod__'], st, closure=env)
            if st.decorator_list:
                env[st.name] = self.decorate(env[st.name], st.decorator_list, env)
            return
        if isinstance(st, ast.Try):
            try:
                self.block(st.body, env)
            except SymRaise as r:
                for h in st.handlers:
                    names = []
                    if h.type is None:
                        names = None
                    elif isinstance(h.type, ast.Name):
                        names = [h.type.id]
                    elif isinstance(h.type, ast.Tuple):
                        names = [x.id for x in h.type.elts]
                    if names is None or r.cls in names or 'Exception' in names:
                        if h.name:
                            env[h.name] = ('exc', r.cls)
                        self.block(h.body, env)
                        break
                else:
                    raise
            else:
                self.block(st.orelse, env)
            self.block(st.finalbody, env)
            return
        if isinstance(st, (ast.Import, ast.ImportFrom)):
            for a in st.names:
                local = a.asname or a.name.split('.')[0]
                from . import extern
                path = f'{st.module}.{a.name}' if isinstance(st, ast.ImportFrom) else a.name
                v = extern.ext_value(self, path)
                env[local] = Ext(path) if v is None else v
            return
        if isinstance(st, ast.Delete):
            raise Unsupported('del')
        raise Unsupported('statement ' + type(st).__name__)

    def decorate(self, fn, decos, env):
        for d in decos:
            dv = self.ev(d, env)
            if isinstance(dv, Ext) and dv.path == 'numpy.vectorize':
                continue            # element-wise application; scalars pass straight through
            if isinstance(dv, tuple) and dv and dv[0] == 'vectorize':
                continue
            raise Unsupported(f'decorator {dv!r}')
        return fn

    # ------------------------------------------------------------ loops
    def loop(self, st, env):
        fn = env.get('__fn__')
        e = env
        while fn is None and e is not None:
            e = e.get('__parent__')
            fn = e.get('__fn__') if e else None
        key = None
        if fn is not None:
            ls = loops_of(fn.node)
            if st in ls:
                key = (fn.qual(), ls.index(st))
        spec = self.loopspecs.get(key)
        if spec is not None:
            self.__dict__.setdefault('spec_hits', set()).add(key)
            return spec.run(self, st, env)
        if key is not None and (key[0], None) in self.loopspecs and isinstance(st, ast.For):
            pass
        if isinstance(st, ast.For):
            it = self.ev(st.iter, env)
            if isinstance(it, list) and it and all(hasattr(x, 'sym_len') for x in it if not isinstance(x, (int, str))) and any(hasattr(x, 'sym_len') for x in it):
                raise Unsupported(f'loop {key} iterates over a sequence of symbolic length and has no invariant')
            if hasattr(it, 'sym_len'):
                raise Unsupported(f'loop {key} iterates over a sequence of symbolic length and has no invariant')
            items = self.iterate(it)
            for item in items:
                self.assign(st.target, item, env)
                try:
                    self.block(st.body, env)
                except Brk:
                    break
                except Cont:
                    continue
            else:
                self.block(st.orelse, env)
            return
        n = nsym = 0
        while True:
            cv = self.ev(st.test, env)
            if isz(cv):
                nsym += 1
                if nsym > 48:
                    # a loop whose exit depends on symbolic data needs a contract (invariant); unrolling it forks a path per iteration
                    raise Unsupported(f'loop {key} has a symbolic exit condition and no invariant (stopped after 48 unrollings)')
            if not self.truth(cv):
                break
            n += 1
            if n > self.unroll_limit:
                raise Unsupported(f'loop {key} does not terminate within {self.unroll_limit} unrollings and has no invariant')
            try:
                self.block(st.body, env)
            except Brk:
                break
            except Cont:
                continue

    def iterate(self, it):
        """finite concrete iteration"""
        from . import arrays
        if isinstance(it, (list, tuple, range)):
            return list(it)
        if isinstance(it, dict):
            return list(it.keys())
        if isinstance(it, np.ndarray):
            return list(it)
        if isinstance(it, str):
            return list(it)
        if isinstance(it, Arr):
            n = it.shape[0] if it.ndim else None
            if isinstance(n, int):
                return [arrays.getitem(self, it, i) for i in range(n)]
            raise Unsupported('iteration over an array of symbolic length without a loop invariant')
        if hasattr(it, '__iter__'):
            return list(it)
        raise Unsupported(f'iterate {it!r}')

    # ------------------------------------------------------------ assignment
    def assign(self, t, v, env):
        from . import arrays
        if isinstance(t, ast.Name):
            env[t.id] = v
            return
        if isinstance(t, (ast.Tuple, ast.List)):
            items = self.iterate(v)
            if len(items) != len(t.elts):
                raise SymRaise('ValueError', 'unpack')
            for tt, vv in zip(t.elts, items):
                self.assign(tt, vv, env)
            return
        if isinstance(t, ast.Attribute):
            o = self.ev(t.value, env)
            if isinstance(o, Obj):
                self.setattr(o, t.attr, v)
                return
            raise Unsupported(f'attribute store on {o!r}')
        if isinstance(t, ast.Subscript):
            a = self.ev(t.value, env)
            idx = self.ev_index(t.slice, env)
            if isinstance(a, (dict, list)):
                if any(a is mv for mv in self.modcache.values()):
                    # a module-level container is being written: hidden state that survives the call
                    self.event('module_state_write', [k for k, mv in self.modcache.items() if mv is a][0], self.where())
                a[idx] = v
                return
            if isinstance(a, np.ndarray):
                a2 = arrays.lift(a)
                raise Unsupported('store into a concrete numpy array')
            if isinstance(a, Arr):
                self.note_store(a)
                arrays.setitem(self, a, idx, v)
                return
            raise Unsupported(f'subscript store on {a!r}')
        raise Unsupported('assign ' + type(t).__name__)

    def setattr(self, o, name, v):
        if o is self.gv:
            self.event('gv_write', name, self.where())
        else:
            self.event('setattr', o.oid, name, self.where())
        o.f[name] = v

    def note_store(self, a):
        self.event('store', a.prov, self.where())

    # ------------------------------------------------------------ expressions
    def ev_index(self, sl, env):
        if isinstance(sl, ast.Slice):
            return SliceV(self.ev(sl.lower, env) if sl.lower else None, self.ev(sl.upper, env) if sl.upper else None,
                          self.ev(sl.step, env) if sl.step else None)
        if isinstance(sl, ast.Tuple):
            return tuple(self.ev_index(x, env) for x in sl.elts)
        return self.ev(sl, env)

    def ev(self, e, env):
        m = getattr(self, 'ev_' + type(e).__name__, None)
        if m is None:
            raise Unsupported('expression ' + type(e).__name__)
        return m(e, env)

    def ev_Constant(self, e, env):
        v = e.value
        if isinstance(v, float):
            return frac(v)
        if isinstance(v, complex):
            return Cx(frac(v.real), frac(v.imag))
        return v

    def ev_Name(self, e, env):
        return self.lookup(e.id, env)

    def ev_List(self, e, env):
        return [self.ev(x, env) for x in e.elts]

    def ev_Tuple(self, e, env):
        return tuple(self.ev(x, env) for x in e.elts)

    def ev_Dict(self, e, env):
        return {self.ev(k, env): self.ev(v, env) for k, v in zip(e.keys, e.values)}

    def ev_Lambda(self, e, env):
        return Fn(env['__mod__'], e, closure=env)

    def ev_IfExp(self, e, env):
        if self.truth(self.ev(e.test, env)):
            return self.ev(e.body, env)
        return self.ev(e.orelse, env)

    def ev_JoinedStr(self, e, env):
        parts = []
        for p in e.values:
            if isinstance(p, ast.Constant):
                parts.append(p.value)
            else:
                v = self.ev(p.value, env)
                spec = self.ev(p.format_spec, env) if p.format_spec is not None else None
                if isinstance(spec, FStr):
                    spec = ''.join(x if isinstance(x, str) else str(x[0]) for x in spec.parts) if all(isinstance(x, str) or isinstance(x[0], (int, str)) for x in spec.parts) else spec
                if spec not in (None, '') and isinstance(v, (Arr, np.ndarray)) and v.ndim >= 1:
                    raise SymRaise('TypeError', 'unsupported format string passed to numpy.ndarray.__format__')
                if spec not in (None, '') and (v is None or isinstance(v, (list, tuple, dict))):
                    raise SymRaise('TypeError', 'unsupported format string passed to __format__')
                if spec is None and isinstance(v, (str, int)) and not isinstance(v, bool) and p.conversion == -1:
                    parts.append(str(v))
                else:
                    parts.append((v, spec))
        if all(isinstance(p, str) for p in parts):
            return ''.join(parts)
        return FStr(parts)

    def ev_FormattedValue(self, e, env):
        return self.ev_JoinedStr(ast.JoinedStr(values=[e]), env)

    def ev_Attribute(self, e, env):
        o = self.ev(e.value, env)
        return self.getattr(o, e.attr)

    def getattr(self, o, attr):
        from . import extern
        if isinstance(o, Obj):
            if o is self.gv and attr in o.f and getattr(self, 'memo_stack', None):
                self.event('memo_state_read', (self.memo_stack[-1], 'gv.' + attr), self.where())
            if attr in o.f:
                return o.f[attr]
            if attr == '__class__':
                return ClsRef(o.cls)
            if attr == '__dict__':
                return o.f
            m = self.get_method(o, attr)
            if m:
                return m
            ca = self.repo.class_attr(o.cls, attr)
            if ca:
                ci, node = ca
                return self.ev(node, {'__mod__': ci.mod})
            if not getattr(o, 'by_ctor', False):
                # an object assembled by a contract harness (fields given directly, constructor not run) lacks an attribute the code reads:
                # the contract's picture of the class is out of date - undecided, never "the program raises AttributeError"
                raise Unsupported(f'harness-built {o.cls} object has no attribute {attr!r} (the contract does not know this field)')
            raise SymRaise('AttributeError', f'{o.cls}.{attr}')
        if isinstance(o, SuperRef):
            m = self.repo.method(o.base, attr)
            if m is None:
                raise SymRaise('AttributeError', attr)
            ci, node = m
            return Bound(Fn(ci.mod, node, cls=ci.name), o.selfv)
        if isinstance(o, ClsRef):
            if attr == '__name__':
                return o.name
            ca = self.repo.class_attr(o.name, attr)
            if ca:
                ci, node = ca
                return self.ev(node, {'__mod__': ci.mod})
            m = self.repo.method(o.name, attr)
            if m:
                ci, node = m
                return Fn(ci.mod, node, cls=ci.name)
            raise SymRaise('AttributeError', attr)
        if isinstance(o, (Arr, np.ndarray)):
            return extern.arr_attr(self, o, attr)
        if isinstance(o, Ext):
            v = extern.ext_value(self, o.path + '.' + attr)
            return Ext(o.path + '.' + attr) if v is None else v
        if isinstance(o, (str, list, dict, tuple)):
            return PyMeth(o, attr)
        if isinstance(o, FStr):
            return PyMeth(o, attr)
        if is_scalar(o):
            return extern.scalar_attr(self, o, attr)
        if isinstance(o, BI) and attr == '__name__':
            return o.n
        if hasattr(o, '_pyvc_attrs'):
            if attr in o._pyvc_attrs:
                return o._pyvc_attrs[attr]
            raise SymRaise('AttributeError', attr)
        if o is None:
            raise SymRaise('AttributeError', f'NoneType.{attr}')
        raise Unsupported(f'attribute {attr} of {o!r}')

    def ev_UnaryOp(self, e, env):
        from . import arrays
        v = self.ev(e.operand, env)
        if isinstance(e.op, ast.Not):
            t = self.truth(v) if not (isz(v) and z3.is_bool(v)) else None
            if t is None:
                return z3.Not(v)
            return not t
        if isinstance(v, (Arr, np.ndarray)):
            return arrays.unop(self, e.op, v)
        if isinstance(e.op, ast.USub):
            return s_neg(v)
        if isinstance(e.op, ast.UAdd):
            return v
        if isinstance(e.op, ast.Invert):
            if isinstance(v, Obj):
                m = self.get_method(v, '__invert__')
                return self.call(m, [], {})
            return s_invert(v)
        raise Unsupported('unary')

    def ev_BoolOp(self, e, env):
        # python semantics: returns the deciding operand
        if isinstance(e.op, ast.Or):
            v = None
            for x in e.values:
                v = self.ev(x, env)
                if self.truth(v):
                    return v
            return v
        v = None
        for x in e.values:
            v = self.ev(x, env)
            if not self.truth(v):
                return v
        return v

    def ev_Compare(self, e, env):
        l = self.ev(e.left, env)
        res = None
        for i, (op, c) in enumerate(zip(e.ops, e.comparators)):
            r = self.ev(c, env)
            res = self.compare(op, l, r)
            if i < len(e.ops) - 1:
                if not self.truth(res):
                    return False
            l = r
        return res

    def compare(self, op, l, r):
        from . import arrays
        on = type(op).__name__
        if on in ('Is', 'IsNot'):
            same = (l is r) or (isinstance(l, ClsRef) and l == r) or (isinstance(l, (bool, type(None))) and isinstance(r, (bool, type(None))) and l is r)
            return same if on == 'Is' else not same
        if on in ('In', 'NotIn'):
            res = self.contains(r, l)
            return res if on == 'In' else (not res if isinstance(res, bool) else z3.Not(res))
        if isinstance(l, Obj) or isinstance(r, Obj):
            names = {'Gt': ('__gt__', '__lt__'), 'Lt': ('__lt__', '__gt__'), 'Eq': ('__eq__', '__eq__'), 'NotEq': ('__ne__', '__ne__'),
                     'GtE': ('__ge__', '__le__'), 'LtE': ('__le__', '__ge__')}[on]
            if isinstance(l, Obj):
                m = self.get_method(l, names[0])
                if m:
                    return self.call(m, [r], {})
            if isinstance(r, Obj):
                m = self.get_method(r, names[1])
                if m:
                    return self.call(m, [l], {})
            if on == 'Eq':
                return l is r
            if on == 'NotEq':
                return l is not r
            raise SymRaise('TypeError')
        if isinstance(l, (ClsRef, BI, Ext)) or isinstance(r, (ClsRef, BI, Ext)):
            eq = (l == r)
            if on == 'Eq':
                return eq
            if on == 'NotEq':
                return not eq
            raise SymRaise('TypeError')
        if isinstance(l, (Arr, np.ndarray)) or isinstance(r, (Arr, np.ndarray)):
            return arrays.cmpop(self, on, l, r)
        if isinstance(l, (tuple, list)) and isinstance(r, (tuple, list)):
            return self.seq_eq(on, l, r)
        if isinstance(l, (str, type(None))) and isinstance(r, (str, type(None))):
            return {'Eq': l == r, 'NotEq': l != r}.get(on) if on in ('Eq', 'NotEq') else V._CMP[on](l, r)
        if isinstance(l, FStr) or isinstance(r, FStr):
            raise Unsupported('comparison of symbolic strings')
        return s_cmp(on, l, r)

    def seq_eq(self, on, l, r):
        if on not in ('Eq', 'NotEq'):
            raise Unsupported('ordering of sequences')
        if len(l) != len(r):
            return on == 'NotEq'
        acc = True
        for a, b in zip(l, r):
            acc = s_and(acc, self.compare(ast.Eq(), a, b))
        return acc if on == 'Eq' else s_not(acc)

    def contains(self, container, x):
        if isinstance(container, dict):
            return x in container
        if isinstance(container, str):
            if isinstance(x, str):
                return x in container
            raise Unsupported('symbolic substring test')
        if isinstance(container, (list, tuple, np.ndarray)):
            acc = False
            for it in container:
                acc = s_or(acc, self.compare(ast.Eq(), x, it))
                if acc is True:
                    return True
            return acc
        if hasattr(container, 'keys') and not isinstance(container, Obj):
            return x in container
        raise Unsupported(f'in {container!r}')

    def ev_BinOp(self, e, env):
        return self.binop(e.op, self.ev(e.left, env), self.ev(e.right, env))

    def binop(self, op, l, r):
        from . import arrays
        on = type(op).__name__
        if isinstance(l, Obj) or isinstance(r, Obj):
            nm = {'Add': 'add', 'Sub': 'sub', 'Mult': 'mul', 'Div': 'truediv', 'Pow': 'pow'}.get(on)
            if nm is None:
                raise Unsupported(f'operator {on} on object')
            if isinstance(l, Obj):
                m = self.get_method(l, f'__{nm}__')
                if m:
                    return self.call(m, [r], {})
            if isinstance(r, Obj):
                if isinstance(l, (Arr, np.ndarray)):
                    raise Unsupported('ndarray on the left of a signal object (numpy dispatches element-wise)')
                m = self.get_method(r, f'__r{nm}__')
                if m:
                    return self.call(m, [l], {})
            raise SymRaise('TypeError', f'unsupported operand for {on}')
        if isinstance(l, (Arr, np.ndarray)) or isinstance(r, (Arr, np.ndarray)):
            if isinstance(l, (list, tuple)) or isinstance(r, (list, tuple)):
                l = arrays.from_seq(self, l) if isinstance(l, (list, tuple)) else l
                r = arrays.from_seq(self, r) if isinstance(r, (list, tuple)) else r
            return arrays.binop(self, on, l, r)
        if isinstance(l, str) or isinstance(r, str) or isinstance(l, FStr) or isinstance(r, FStr):
            if on == 'Add':
                if isinstance(l, str) and isinstance(r, str):
                    return l + r
                lp = [l] if isinstance(l, str) else l.parts
                rp = [r] if isinstance(r, str) else r.parts
                return FStr(list(lp) + list(rp))
            if on == 'Mult' and isinstance(l, (str, int)) and isinstance(r, (str, int)):
                return l * r
            if on == 'Mod':
                raise Unsupported('% string formatting')
            raise SymRaise('TypeError')
        if isinstance(l, (list, tuple)) and isinstance(r, (list, tuple)) and on == 'Add':
            return l + r
        if isinstance(l, (list, tuple)) and isinstance(r, int) and on == 'Mult':
            return l * r
        if isinstance(l, int) and isinstance(r, (list, tuple)) and on == 'Mult':
            return l * r
        if l is None or r is None:
            raise SymRaise('TypeError', 'NoneType operand')
        return self.scalar_binop(on, l, r)

    def scalar_binop(self, on, l, r):
        if on == 'Add':
            return s_add(l, r)
        if on == 'Sub':
            return s_sub(l, r)
        if on == 'Mult':
            return s_mul(l, r)
        if on == 'Div':
            return s_div(l, r, self)
        if on == 'FloorDiv':
            return s_floordiv(l, r, self)
        if on == 'Mod':
            return s_mod(l, r, self)
        if on == 'Pow':
            return s_pow(l, r, self)
        if on in ('BitAnd', 'BitOr', 'BitXor', 'LShift', 'RShift'):
            return s_bitop(on, l, r)
        raise Unsupported(on)

    def ev_Call(self, e, env):
        f = self.ev(e.func, env)
        args = []
        for a in e.args:
            if isinstance(a, ast.Starred):
                args.extend(self.iterate(self.ev(a.value, env)))
            else:
                args.append(self.ev(a, env))
        kw = {}
        for k in e.keywords:
            if k.arg is None:
                d = self.ev(k.value, env)
                kw.update(d)
            else:
                kw[k.arg] = self.ev(k.value, env)
        if isinstance(f, BI) and f.n == 'super':
            cls = None
            en = env
            while en is not None and cls is None:
                cls = en.get('__class__')
                en = en.get('__parent__')
            ci = self.repo.classes[cls]
            selfv = env.get('self')
            return SuperRef(ci.bases[0], selfv)
        return self.call(f, args, kw)

    def ev_Subscript(self, e, env):
        from . import arrays
        a = self.ev(e.value, env)
        idx = self.ev_index(e.slice, env)
        return self.subscript(a, idx)

    def subscript(self, a, idx):
        from . import arrays
        if isinstance(a, Obj):
            m = self.get_method(a, '__getitem__')
            if m is None:
                raise SymRaise('TypeError')
            return self.call(m, [idx], {})
        if isinstance(a, (Arr, np.ndarray)):
            return arrays.getitem(self, a, idx)
        if isinstance(a, dict):
            if idx in a:
                return a[idx]
            raise SymRaise('KeyError')
        if isinstance(a, (list, tuple, str)):
            if isinstance(idx, SliceV):
                if any(isz(x) for x in (idx.lo, idx.hi, idx.step)):
                    raise Unsupported('symbolic slice of a python sequence')
                return a[slice(conc(idx.lo) if idx.lo is not None else None, conc(idx.hi) if idx.hi is not None else None, conc(idx.step) if idx.step is not None else None)]
            idx = conc(idx)
            if isinstance(idx, BVInt):
                raise Unsupported('bv index')
            if isz(idx):
                # symbolic index into a concrete sequence of scalars
                n = len(a)
                self.assume_index(idx, n)
                res = a[n - 1]
                for k in range(n - 2, -1, -1):
                    res = s_ite(z3.Or(idx == k, idx == k - n), a[k], res)
                return res
            try:
                return a[idx]
            except IndexError:
                raise SymRaise('IndexError')
        if isinstance(a, FStr):
            raise Unsupported('subscript of a symbolic string')
        raise Unsupported(f'subscript of {a!r}')

    def assume_index(self, idx, n):
        ok = z3.And(idx >= -n, idx < n)
        if not self.branch(ok):
            raise SymRaise('IndexError')

    def ev_Slice(self, e, env):
        return SliceV(self.ev(e.lower, env) if e.lower else None, self.ev(e.upper, env) if e.upper else None, self.ev(e.step, env) if e.step else None)

    def ev_ListComp(self, e, env):
        if len(e.generators) != 1:
            raise Unsupported('nested comprehension')
        g = e.generators[0]
        out = []
        for item in self.iterate(self.ev(g.iter, env)):
            sub = {'__parent__': env, '__mod__': env['__mod__']}
            self.assign(g.target, item, sub)
            if all(self.truth(self.ev(c, sub)) for c in g.ifs):
                out.append(self.ev(e.elt, sub))
        return out

    def ev_GeneratorExp(self, e, env):
        return self.ev_ListComp(e, env)

    def ev_Starred(self, e, env):
        raise Unsupported('starred')


# ---------------------------------------------------------------------------------------------- exploration
class Path:
    def __init__(self, ex, kind, value):
        self.ex = ex
        self.kind = kind          # 'ret' | 'raise' | 'end' | 'unsupported'
        self.value = value
        self.pc = ex.pc
        self.events = ex.events

    @property
    def raised(self):
        return self.value if self.kind == 'raise' else None

    def signature(self):
        return ''.join('T' if d else 'F' for d, f in self.ex.taken)


def explore(repo, run, pre=(), maxpaths=4096, setup=None, timeout_ms=5000):
    """run(ex) is executed once per feasible path. Returns list of Path (kind 'unsupported' carries the message)."""
    work = [[]]
    out = []
    while work:
        if len(out) >= maxpaths:
            raise Unsupported(f'more than {maxpaths} paths')
        dec = work.pop()
        ex = Exec(repo, dec, pre, timeout_ms=timeout_ms)
        if setup:
            setup(ex)
        try:
            try:
                r = Path(ex, 'ret', run(ex))
            except SymRaise as e:
                r = Path(ex, 'raise', e.cls)
                r.msg = e.msg
            except PathEnd:
                r = Path(ex, 'end', None)
            except Infeasible:
                r = None
            except (Ret, Brk, Cont):
                raise Unsupported('control flow escaped')
        except Unsupported as u:
            r = Path(ex, 'unsupported', str(u))
        for i in range(len(dec), len(ex.taken)):
            d, forced = ex.taken[i]
            if not forced:
                work.append(ex.taken[:i] + [(not d, True)])
        if r is not None:
            out.append(r)
    return out
