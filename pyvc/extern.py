"""Assumed contracts ("axioms") for python builtins, numpy and scipy.

Everything the verifier believes about code outside the repository is in this file (and in axioms.py for the
scalar special functions).  Each entry maps the call to a value of the symbolic domain; `audit.py` tests the
statements against the installed libraries.
"""
import itertools
from fractions import Fraction
import numpy as np
import z3
from .values import *
from . import values as V
from . import arrays
from .arrays import lift, from_seq, copy, elementwise, prod, MaskSel


class StrArr:
    """arr.astype(str): only ever joined into a command string"""
    def __init__(self, arr):
        self.arr = arr


class SplitList:
    """np.split(a, np.arange(c, n, c)): consecutive chunks of c elements, the last one possibly shorter"""
    def __init__(self, arr, c):
        self.arr = arr
        self.c = c
        n = tonum(arr.shape[0])
        self.sym_len = z3.If(n > 0, (n + c - 1) / c, 1)

    def sym_item(self, k):
        n = tonum(self.arr.shape[0])
        c = self.c
        ln = z3.If((k + 1) * c <= n, z3.IntVal(c), n - k * c)
        a = self.arr
        out = Arr([z3.simplify(ln)], lambda idx: a.elem((k * c + tonum(idx[0]),)), a.kind, prov=a.prov, view=True, np_dtype=a.np_dtype)
        return out


class DType:
    def __init__(self, kind, name=None):
        self.kind = kind
        self.name = name or kind

    def __eq__(self, o):
        return isinstance(o, DType) and o.kind == self.kind and o.name == self.name

    def __hash__(self):
        return hash((self.kind, self.name))

    def __repr__(self):
        return f'dtype({self.name})'


def as_dtype(d):
    from .interp import BI, Ext
    if d is None:
        return None
    if isinstance(d, DType):
        return d
    if isinstance(d, BI):
        if d.n in ('bool', 'int', 'float', 'complex'):
            return DType(d.n)
    if isinstance(d, Ext):
        nm = d.path.split('.')[-1]
        table = {'uint8': ('int', 'uint8'), 'int64': ('int', 'int64'), 'int32': ('int', 'int32'), 'float64': ('float', 'float64'),
                 'complex128': ('complex', 'complex128'), 'bool_': ('bool', 'bool'), 'complex_': ('complex', 'complex128'),
                 'float32': ('float', 'float32'), 'complex64': ('complex', 'complex64'), 'int8': ('int', 'int8'), 'uint16': ('int', 'uint16')}
        if nm in table:
            return DType(*table[nm])
    if isinstance(d, str):
        if d in ('complex', 'float', 'int', 'bool'):
            return DType(d)
    raise Unsupported(f'dtype {d!r}')


def native(f):
    f._pyvc_native = True
    return f


# ------------------------------------------------------------------------------------------ builtins
def isa(ex, v, t):
    from .interp import ClsRef, BI, Ext, Fn, Bound, SliceV
    if isinstance(t, (tuple, list)):
        return any(isa(ex, v, x) for x in t)
    if isinstance(t, ClsRef):
        return isinstance(v, Obj) and ex.repo.is_subclass(v.cls, t.name)
    if isinstance(t, BI):
        n = t.n
        if n == 'int':
            return isinstance(v, (bool, int)) or (isz(v) and (z3.is_int(v) or z3.is_bool(v))) or (isinstance(v, BVInt) and getattr(v, 'pyint', True))
        if n == 'float':
            return isinstance(v, (Fraction, float)) or (isz(v) and z3.is_real(v))
        if n == 'complex':
            return isinstance(v, Cx)
        if n == 'bool':
            return isinstance(v, bool) or (isz(v) and z3.is_bool(v))
        if n == 'str':
            return isinstance(v, (str, FStr))
        if n == 'list':
            return isinstance(v, list)
        if n == 'tuple':
            return isinstance(v, tuple)
        if n == 'dict':
            return isinstance(v, dict)
        if n == 'slice':
            return isinstance(v, SliceV)
        raise Unsupported(f'isinstance(.., {n})')
    if isinstance(t, Ext):
        nm = t.path.split('.')[-1]
        if nm == 'ndarray':
            return isinstance(v, (Arr, np.ndarray))
        if nm == 'float64':
            return isz(v) and z3.is_real(v) and getattr(v, 'npfloat', False)
        if nm in ('integer', 'int64'):
            return isinstance(v, np.integer)
        raise Unsupported(f'isinstance(.., {t.path})')
    raise Unsupported(f'isinstance type {t!r}')


def typeof(ex, v):
    from .interp import ClsRef, BI, Ext
    if isinstance(v, Obj):
        return ClsRef(v.cls)
    if isinstance(v, (Arr, np.ndarray)):
        return Ext('numpy.ndarray')
    for n in ('bool', 'int', 'float', 'complex', 'str', 'list', 'tuple', 'dict'):
        if isa(ex, v, BI(n)):
            return BI(n)
    if v is None:
        return BI('NoneType')
    raise Unsupported(f'type({v!r})')


def ndigits(n):
    """len(str(n)) for an integer n >= 0"""
    n = conc(n)
    if isinstance(n, int):
        return len(str(n))
    t = tonum(n)
    res = z3.IntVal(20)
    for k in range(19, 0, -1):
        res = z3.If(t < 10 ** k, z3.IntVal(k), res)
    return res


def call_builtin(ex, n, args, kw):
    from .interp import ClsRef, BI, Ext, Fn, Bound, SliceV
    if n == 'len':
        v = args[0]
        if isinstance(v, Obj):
            m = ex.get_method(v, '__len__')
            if m is None:
                raise SymRaise('TypeError', 'object has no len()')
            return ex.call(m, [], {})
        if isinstance(v, (Arr, np.ndarray)):
            if v.ndim == 0:
                raise SymRaise('TypeError', 'len() of unsized object')
            return conc(v.shape[0]) if isinstance(v, np.ndarray) else v.shape[0]
        if isinstance(v, (list, tuple, str, dict)):
            return len(v)
        if isinstance(v, FStr):
            if len(v.parts) == 1 and not isinstance(v.parts[0], str) and v.parts[0][1] is None and scalar_kind(v.parts[0][0]) == 'int':
                x = v.parts[0][0]
                if not ex.entails(tonum(x) >= 0):
                    raise Unsupported('len(str(negative int))')
                return ndigits(x)
            raise Unsupported('len of a symbolic string')
        if is_scalar(v) or v is None:
            raise SymRaise('TypeError', 'object has no len()')
        raise Unsupported(f'len({v!r})')
    if n == 'isinstance':
        return isa(ex, args[0], args[1])
    if n == 'type':
        return typeof(ex, args[0])
    if n == 'int':
        if not args:
            return 0
        v = args[0]
        if isinstance(v, Arr):
            if v.ndim == 0 or all(conc(d) == 1 for d in v.shape):
                return s_int(v.elem(tuple(0 for _ in v.shape)), ex)
            raise SymRaise('TypeError', 'only size-1 arrays can be converted')
        if isinstance(v, RoundedInt):
            return v.i
        return s_int(v, ex)
    if n == 'float':
        v = args[0]
        if isinstance(v, Arr) and v.ndim == 0:
            v = v.at()
        if isinstance(v, (str, FStr)):
            raise Unsupported('float(str)')
        return s_float(v)
    if n == 'bool':
        return ex.truth(args[0])
    if n == 'str':
        v = args[0]
        if isinstance(v, (str,)):
            return v
        if isinstance(v, bool) or isinstance(v, int):
            return str(v)
        if isinstance(v, FStr):
            return v
        return FStr([(v, None)])
    if n == 'abs':
        v = args[0]
        if isinstance(v, (Arr, np.ndarray)):
            return call_ext(ex, 'numpy.abs', [v], {})
        return s_abs(v)
    if n in ('min', 'max'):
        items = list(args[0]) if len(args) == 1 else list(args)
        if isinstance(args[0], (Arr, np.ndarray)) and len(args) == 1:
            return call_ext(ex, 'numpy.' + n, [args[0]], {})
        res = items[0]
        for it in items[1:]:
            c = s_cmp('Lt' if n == 'min' else 'Gt', it, res)
            res = s_ite(c, it, res) if not isinstance(c, bool) else (it if c else res)
        return res
    if n == 'range':
        a = [conc(x) for x in args]
        if all(isinstance(x, int) for x in a):
            return range(*a)
        raise Unsupported('range with symbolic bounds (needs a loop invariant)')
    if n == 'zip':
        seqs = [ex.iterate(a) for a in args]
        return list(zip(*seqs))
    if n == 'enumerate':
        return list(enumerate(ex.iterate(args[0])))
    if n == 'list':
        if args and isinstance(args[0], LazyMap):
            return args[0]
        return list(ex.iterate(args[0])) if args else []
    if n == 'tuple':
        return tuple(ex.iterate(args[0])) if args else ()
    if n == 'dict':
        return dict(*args, **kw)
    if n == 'map':
        return map_builtin(ex, args[0], args[1])
    if n == 'print':
        ex.event('print', args)
        return None
    if n == 'callable':
        return isinstance(args[0], (Fn, Bound, BI, Ext, ClsRef)) or getattr(args[0], '_pyvc_native', False)
    if n == 'getattr':
        try:
            return ex.getattr(args[0], args[1])
        except SymRaise:
            if len(args) > 2:
                return args[2]
            raise
    if n == 'hasattr':
        try:
            ex.getattr(args[0], args[1])
            return True
        except SymRaise:
            return False
    if n == 'setattr':
        o, name, v = args
        if not isinstance(name, str):
            raise Unsupported('setattr with symbolic name')
        ex.setattr(o, name, v)
        return None
    if n == 'delattr':
        o, name = args
        if name not in o.f:
            raise SymRaise('AttributeError')
        if o is ex.gv:
            ex.event('gv_write', name, ex.where())
        del o.f[name]
        return None
    if n == 'dir':
        o = args[0]
        names = list(o.f.keys())
        c = o.cls
        while c:
            ci = ex.repo.classes[c]
            names += list(ci.methods.keys()) + list(ci.attrs.keys())
            c = ci.bases[0] if ci.bases and ci.bases[0] in ex.repo.classes else None
        names += ['__class__', '__dict__']
        return sorted(set(names))
    if n == 'sum':
        items = ex.iterate(args[0])
        res = args[1] if len(args) > 1 else 0
        for it in items:
            res = ex.binop(_ast_op('Add'), res, it)
        return res
    if n == 'round':
        return call_ext(ex, 'numpy.round', args, kw)
    if n in ('any', 'all'):
        items = ex.iterate(args[0])
        acc = (n == 'all')
        for it in items:
            t = ex.truth(it)
            if n == 'any' and t:
                return True
            if n == 'all' and not t:
                return False
        return acc
    if n == 'sorted':
        items = ex.iterate(args[0])
        if all(isinstance(x, (int, str)) for x in items):
            return sorted(items)
        raise Unsupported('sorted of symbolic items')
    if n == 'complex':
        if len(args) == 1:
            return args[0] if isinstance(args[0], Cx) else Cx(s_float(args[0]), Fraction(0))
        return Cx(s_float(args[0]), s_float(args[1]))
    if n == 'slice':
        a = list(args) + [None] * (3 - len(args))
        if len(args) == 1:
            return SliceV(None, a[0], None)
        return SliceV(a[0], a[1], a[2])
    if n in ('ValueError', 'TypeError', 'KeyError', 'Exception'):
        return ('exc', n)
    raise Unsupported(f'builtin {n}')


def _ast_op(name):
    import ast
    return getattr(ast, name)()


class RoundedInt:
    """value of np.round(x): a float that is integral; int(.) of it is exact"""
    def __init__(self, i):
        self.i = i


def scalar_attr(ex, v, attr):
    from .interp import PyMeth
    if attr == 'real':
        return s_real(v)
    if attr == 'imag':
        return s_imag(v)
    if attr in ('conj', 'conjugate', 'lower', 'upper', 'item', 'astype', 'any', 'all', 'sum', 'min', 'max', 'mean'):
        return PyMeth(v, attr)
    if attr == 'ndim':
        return 0
    if attr == 'size':
        return 1
    if attr == 'shape':
        return ()
    if attr == 'len':
        raise SymRaise('AttributeError', 'scalar has no attribute len')
    raise SymRaise('AttributeError', f'scalar has no attribute {attr}')


def call_pymeth(ex, o, name, args, kw):
    if isinstance(o, str):
        if all(isinstance(a, (str, int)) for a in args):
            if name in ('lower', 'upper', 'strip', 'replace', 'split', 'startswith', 'endswith', 'format', 'join', 'keys'):
                if name == 'join':
                    items = ex.iterate(args[0])
                    if all(isinstance(x, str) for x in items):
                        return o.join(items)
                    parts = []
                    for i, x in enumerate(items):
                        if i:
                            parts.append(o)
                        parts.extend(x.parts if isinstance(x, FStr) else [x])
                    return FStr(parts)
                return getattr(o, name)(*args)
        if name == 'join':
            a = args[0]
            if isinstance(a, StrArr):
                return FStr([(('join', o, a.arr), None)])
            if isinstance(a, Arr):
                return FStr([(('join', o, a), None)])
            items = ex.iterate(a)
            parts = []
            for i, x in enumerate(items):
                if i and o:
                    parts.append(o)
                parts.extend(x.parts if isinstance(x, FStr) else [x])
            return FStr(parts) if not all(isinstance(p, str) for p in parts) else ''.join(parts)
        if name == 'format':
            return FStr([o] + [(a, None) for a in args])
        raise Unsupported(f'str.{name}')
    if isinstance(o, (dict, list, set)) and name in ('pop', 'popitem', 'update', 'setdefault', 'clear', 'append', 'extend', 'insert', 'remove', 'sort', 'reverse', 'add', 'discard', '__setitem__', '__delitem__'):
        hit = [k for k, mv in ex.modcache.items() if mv is o]
        if hit:
            # a module-level container is being mutated: hidden state that survives the call
            ex.event('module_state_write', hit[0], ex.where())
    if isinstance(o, dict):
        if name == 'get':
            k = args[0]
            return o.get(k, args[1] if len(args) > 1 else None)
        if name == 'keys':
            return list(o.keys())
        if name == 'items':
            return list(o.items())
        if name == 'values':
            return list(o.values())
        if name == 'pop':
            return o.pop(*args)
        if name == 'update':
            o.update(*args, **kw)
            return None
        if name == 'setdefault':
            return o.setdefault(*args)
        if name == 'clear':
            o.clear()
            return None
        raise Unsupported(f'dict.{name}')
    if isinstance(o, list):
        if name == 'append':
            o.append(args[0])
            return None
        if name == 'index':
            return o.index(args[0])
        raise Unsupported(f'list.{name}')
    if isinstance(o, FStr):
        if name in ('lower', 'upper'):
            raise Unsupported('case conversion of a symbolic string')
    if is_scalar(o):
        if name in ('conj', 'conjugate'):
            return s_conj(o)
        if name == 'item':
            return o
        if name in ('any', 'all'):
            return tobool(o)
        if name in ('sum', 'min', 'max', 'mean'):
            return o
        if name == 'astype':
            return s_cast(o, as_dtype(args[0]).kind)
    raise Unsupported(f'method {name} of {type(o).__name__}')


# ------------------------------------------------------------------------------------------ array attributes / methods
def arr_attr(ex, a, attr):
    from .interp import ArrMeth
    a = lift(a)
    if attr == 'ndim':
        return a.ndim
    if attr == 'shape':
        return tuple(a.shape)
    if attr == 'size':
        return prod(a.shape)
    if attr == 'dtype':
        return DType(a.kind, a.np_dtype or a.kind)
    if attr == 'real':
        if a.kind != 'complex':
            return a          # numpy returns the array itself (a view) for real dtypes
        out = Arr(a.shape, lambda idx: s_real(a.elem(idx)), 'float', prov=a.prov, view=True)
        return out
    if attr == 'imag':
        return Arr(a.shape, lambda idx: s_imag(a.elem(idx)), 'float', prov=a.prov, view=True)
    if attr == 'T':
        if a.ndim == 1:
            return a
        if a.ndim == 2:
            return Arr([a.shape[1], a.shape[0]], lambda idx: a.elem((idx[1], idx[0])), a.kind, prov=a.prov, view=True)
    if attr == 'len':
        raise SymRaise('AttributeError', "'numpy.ndarray' object has no attribute 'len'")
    return ArrMeth(a, attr)


def call_arrmeth(ex, a, name, args, kw):
    if name == 'astype':
        from .interp import BI
        if args and isinstance(args[0], BI) and args[0].n == 'str':
            return StrArr(a)
        d = as_dtype(args[0] if args else kw.get('dtype'))
        if kw.get('copy') is False and d.kind == a.kind and (d.name == (a.np_dtype or a.kind) or d.name == d.kind):
            return a          # astype(..., copy=False) returns the array itself when no conversion is needed
        out = copy(a, d.kind)
        out.np_dtype = d.name
        if d.kind == 'bool' and a.kind != 'bool':
            e = a.elem
            out.elem = lambda idx: tobool(e(idx))
        return out
    if name == 'copy':
        return copy(a)
    if name in ('sum', 'mean', 'max', 'min', 'any', 'all', 'argmax', 'argmin', 'std', 'clip', 'conj', 'reshape', 'ravel', 'round', 'cumsum', 'tolist', 'flatten', 'conjugate'):
        return call_ext(ex, 'numpy.' + {'conjugate': 'conj', 'flatten': 'ravel'}.get(name, name), [a] + list(args), kw)
    if name == 'len':
        raise SymRaise('AttributeError', "'numpy.ndarray' object has no attribute 'len'")
    if name == 'sort':
        ex.note_store(a)
        raise Unsupported('in-place sort')
    raise Unsupported(f'ndarray.{name}')


# ------------------------------------------------------------------------------------------ external functions
EXT = {}


def ext(*names):
    def deco(f):
        for n in names:
            EXT[n] = f
        return f
    return deco


CONSTS = {
    'scipy.constants.c': 299792458,
    'scipy.constants.h': Fraction('6.62607015e-34'),
    'scipy.constants.e': Fraction('1.602176634e-19'),
    'scipy.constants.k': Fraction('1.380649e-23'),
    'numpy.inf': 'INF',
}


def call_ext(ex, path, args, kw):
    if ('ext:' + path) in ex.overrides:            # contract-supplied stand-in for one external call (stated in the contract)
        return ex.overrides['ext:' + path](ex, list(args), dict(kw))
    f = EXT.get(path)
    if f is None:
        if path.startswith('matplotlib') or path.startswith('tqdm'):
            raise Unsupported(f'plotting / progress call {path} (not under contract)')
        raise Unsupported(f'external function {path} has no assumed contract')
    if kw:
        # a keyword the assumed contract does not name is never silently dropped (it may change dtype, axis, masking ...)
        named = _NAMED_KW.get(f)
        if named is None:
            import inspect
            named = _NAMED_KW[f] = {p.name for p in inspect.signature(f).parameters.values() if p.kind in (p.POSITIONAL_OR_KEYWORD, p.KEYWORD_ONLY)}
        extra = [k for k in kw if k not in named]
        ign = _IGNORABLE_KW.get(path, ())
        if extra and ign != '*' and not all(k in ign for k in extra):
            raise Unsupported(f'{path}: keyword argument(s) {sorted(k for k in extra if k not in ign)} outside the assumed contract')
    return f(ex, *args, **kw)


_NAMED_KW = {}
# keywords that cannot influence the values under contract
_IGNORABLE_KW = {'warnings.warn': ('category', 'stacklevel'), 'warnings.filterwarnings': '*', 'warnings.simplefilter': '*', 'numpy.set_printoptions': '*',
                 'numpy.vectorize': ('otypes', 'doc', 'cache')}


def ext_value(ex, path):
    """value of an external *name* that is not called (constants, types)"""
    if path in ('scipy.constants.pi', 'numpy.pi'):
        return PI
    if path in CONSTS:
        return CONSTS[path]
    return None


def _arr(ex, x):
    if isinstance(x, (Arr, np.ndarray)):
        return lift(x)
    if isinstance(x, (list, tuple)):
        return from_seq(ex, x)
    if is_scalar(x):
        return arrays.scalar0(x)
    raise Unsupported(f'array from {x!r}')


@ext('numpy.asarray')
def np_asarray(ex, x, dtype=None, **kw):
    """no copy when the input already is an ndarray of the requested dtype kind"""
    d = as_dtype(dtype)
    if isinstance(x, Arr) and (d is None or d.kind == x.kind):
        return x
    return np_array(ex, x, dtype=dtype)


@ext('numpy.array')
def np_array(ex, x, dtype=None, **kw):
    from .interp import Obj as _O
    d = as_dtype(dtype)
    if isinstance(x, LazyMap):
        return array_of_lazymap(ex, x)
    if x is None and d is None:
        return None      # 0-d object array holding None: every arithmetic operation on it raises TypeError, exactly like None
    if isinstance(x, (str, FStr)) or x is None or isinstance(x, Obj):
        raise Unsupported(f'np.array of {type(x).__name__}')
    if isinstance(x, dict):
        raise Unsupported('np.array of dict')
    if isinstance(x, (list, tuple)) and any(isinstance(i, (str, FStr)) for i in x):
        raise Unsupported('np.array of strings')
    a = _arr(ex, x)
    out = copy(a) if (a is x or isinstance(x, np.ndarray)) else a
    if isinstance(x, (Arr,)) :
        out = copy(a)
    if d is not None and d.kind != out.kind:
        if out.kind == 'complex' and d.kind in ('float', 'int', 'bool') and d.kind != 'bool':
            raise SymRaise('TypeError', "can't convert complex to float")
        out = copy(out, d.kind)
        if d.kind == 'bool':
            e = a.elem
            out.elem = lambda idx: tobool(e(idx))
    if d is not None:
        out.np_dtype = d.name
    return out


@ext('numpy.result_type')
def np_result_type(ex, *xs):
    k = 'bool'
    for x in xs:
        if isinstance(x, DType):
            k = kmax(k, x.kind)
        elif isinstance(x, (Arr, np.ndarray)):
            k = kmax(k, lift(x).kind)
        else:
            k = kmax(k, scalar_kind(x))
    return DType(k)


def _shape_arg(s):
    if isinstance(s, (tuple, list)):
        return list(s)
    return [s]


@ext('numpy.ones')
def np_ones(ex, shape, dtype=None, **kw):
    d = as_dtype(dtype) or DType('float')
    one = {'float': Fraction(1), 'int': 1, 'bool': True, 'complex': Cx(Fraction(1), Fraction(0))}[d.kind]
    return Arr(_shape_arg(shape), lambda idx: one, d.kind, np_dtype=d.name)


@ext('numpy.zeros')
def np_zeros(ex, shape, dtype=None, **kw):
    d = as_dtype(dtype) or DType('float')
    zero = {'float': Fraction(0), 'int': 0, 'bool': False, 'complex': Cx(Fraction(0), Fraction(0))}[d.kind]
    return Arr(_shape_arg(shape), lambda idx: zero, d.kind, np_dtype=d.name)


@ext('numpy.empty')
def np_empty(ex, shape, dtype=None, **kw):
    d = as_dtype(dtype) or DType('float')
    shape = _shape_arg(shape)
    if len(shape) != 1:
        raise Unsupported('np.empty nd')
    name = f'empty!{next(ex.fresh)}'
    if d.kind == 'int':
        f = z3.Function(name, z3.IntSort(), z3.IntSort())
        return Arr(shape, lambda idx: f(tonum(idx[0])), 'int', np_dtype=d.name)
    if d.kind == 'float':
        f = z3.Function(name, z3.IntSort(), z3.RealSort())
        return Arr(shape, lambda idx: f(tonum(idx[0])), 'float', np_dtype=d.name)
    raise Unsupported('np.empty dtype')


@ext('numpy.ones_like')
def np_ones_like(ex, a, dtype=None, **kw):
    a = _arr(ex, a)
    d = as_dtype(dtype) or DType(a.kind, a.np_dtype)
    return np_ones(ex, list(a.shape), dtype=d)


@ext('numpy.zeros_like')
def np_zeros_like(ex, a, dtype=None, **kw):
    a = _arr(ex, a)
    d = as_dtype(dtype) or DType(a.kind, a.np_dtype)
    return np_zeros(ex, list(a.shape), dtype=d)


@ext('numpy.arange')
def np_arange(ex, *args, dtype=None, **kw):
    a = [conc(x) for x in args]
    if len(a) == 1:
        start, stop, step = 0, a[0], 1
    elif len(a) == 2:
        start, stop, step = a[0], a[1], 1
    else:
        start, stop, step = a
    if all(isinstance(x, int) for x in (start, stop, step)):
        d = as_dtype(dtype)
        out = lift(np.arange(start, stop, step, dtype=np.dtype(d.name) if d is not None and d.name not in ('int', 'float', 'bool', 'complex') else None))
        out.meta = {'arange': (start, step)}
        return out
    if scalar_kind(start) != 'int' or scalar_kind(stop) != 'int' or scalar_kind(step) != 'int':
        raise Unsupported('non-integer arange')
    if not ex.entails(tonum(step) > 0):
        raise Unsupported('arange step sign')
    d = tonum(s_sub(stop, start))
    n = z3.If(d > 0, (d + tonum(step) - 1) / tonum(step), 0)
    n = z3.simplify(n)
    out = Arr([n], lambda idx: s_add(start, s_mul(idx[0], step)), 'int')
    out.meta = {'arange': (start, step)}
    return out


@ext('numpy.kron')
def np_kron(ex, a, b):
    a, b = _arr(ex, a), _arr(ex, b)
    if a.ndim != 1 or b.ndim != 1:
        raise Unsupported('kron nd')
    sb = b.shape[0]
    if not ex.entails(tobool(s_cmp('Gt', sb, 0))):
        if ex.branch(tobool(s_cmp('LtE', sb, 0))):
            raise Unsupported('kron with an empty factor')
    k = kmax(a.kind, b.kind)

    def elem(idx):
        i = idx[0]
        return s_mul(a.elem((arrays.s_floordiv_pos(i, sb),)), b.elem((arrays.s_mod_pos(i, sb),)))
    return Arr([s_mul(a.shape[0], sb)], elem, k)


@ext('numpy.tile')
def np_tile(ex, a, reps):
    a = _arr(ex, a)
    if isinstance(reps, (tuple, list)):
        if len(reps) == 2 and a.ndim == 1:
            r0, r1 = reps
            sa = a.shape[0]
            return Arr([r0, s_mul(sa, r1)], lambda idx: a.elem((arrays.s_mod_pos(idx[1], sa),)), a.kind, np_dtype=a.np_dtype)
        raise Unsupported('tile reps')
    if a.ndim == 0:
        v = a.at()
        return Arr([reps], lambda idx: v, a.kind)
    if a.ndim != 1:
        raise Unsupported('tile nd')
    sa = a.shape[0]
    if conc(sa) == 1:
        return Arr([reps], lambda idx: a.elem((0,)), a.kind, np_dtype=a.np_dtype)
    if not ex.entails(tobool(s_cmp('Gt', sa, 0))):
        raise Unsupported('tile of possibly empty array')
    return Arr([s_mul(sa, reps)], lambda idx: a.elem((arrays.s_mod_pos(idx[0], sa),)), a.kind, np_dtype=a.np_dtype)


@ext('numpy.concatenate')
def np_concatenate(ex, seq, axis=0, **kw):
    parts = [_arr(ex, x) for x in seq]
    if any(p.ndim != 1 for p in parts):
        raise Unsupported('concatenate nd')
    k = parts[0].kind
    for p in parts:
        k = kmax(k, p.kind)
    offs = [0]
    for p in parts:
        offs.append(s_add(offs[-1], p.shape[0]))
    for o in offs[1:-1]:
        ex.add_index_shift(tonum(o) if not isinstance(conc(o), int) else conc(o))

    def elem(idx):
        i = idx[0]
        res = s_cast(parts[-1].elem((s_sub(i, offs[-2]),)), k) if len(parts) else None
        for j in range(len(parts) - 2, -1, -1):
            c = tobool(s_cmp('Lt', i, offs[j + 1]))
            if c is True:
                res = s_cast(parts[j].elem((s_sub(i, offs[j]),)), k)
            elif c is False:
                pass
            else:
                res = s_ite(c, s_cast(parts[j].elem((s_sub(i, offs[j]),)), k), res)
        return res
    dt = parts[0].np_dtype if all(p.np_dtype == parts[0].np_dtype for p in parts) else None
    return Arr([offs[-1]], elem, k, np_dtype=dt)


@ext('numpy.sqrt')
def np_sqrt(ex, x):
    def f(v):
        if isinstance(v, Cx):
            raise Unsupported('complex sqrt')
        ex.defined(tobool(s_cmp('GtE', v, 0)), 'sqrt of a negative value')
        return mk_sqrt(v)
    return _map(ex, f, x, 'float')


def _map(ex, f, x, kind=None):
    if isinstance(x, (Arr, np.ndarray)):
        a = lift(x)
        return elementwise(ex, f, [a], kind or a.kind)
    if isinstance(x, (list, tuple)):
        return _map(ex, f, from_seq(ex, x), kind)
    return f(x)


@ext('numpy.abs', 'numpy.absolute')
def np_abs(ex, x):
    if isinstance(x, Obj):
        m = ex.get_method(x, '__abs__')
        raise SymRaise('TypeError', 'bad operand type for abs()')
    k = None
    if isinstance(x, (Arr, np.ndarray)):
        k = 'float' if lift(x).kind == 'complex' else lift(x).kind
    return _map(ex, s_abs, x, k)


@ext('numpy.exp')
def np_exp(ex, x):
    def f(v):
        if isinstance(v, Cx):
            m = uf('exp', v.re) if not (is_conc_num(v.re) and v.re == 0) else Fraction(1)
            if is_conc_num(v.im) and v.im == 0:
                return Cx(m, Fraction(0))
            return Cx(s_mul(m, uf('cos', v.im)), s_mul(m, uf('sin', v.im)))
        if is_conc_num(v) and v == 0:
            return Fraction(1)
        return uf('exp', v)
    k = None
    if isinstance(x, (Arr, np.ndarray)):
        k = kmax(lift(x).kind, 'float')
    return _map(ex, f, x, k)


@ext('numpy.cos')
def np_cos(ex, x):
    return _map(ex, lambda v: uf('cos', v), x, 'float')


@ext('numpy.sin')
def np_sin(ex, x):
    return _map(ex, lambda v: uf('sin', v), x, 'float')


@ext('numpy.log10')
def np_log10(ex, x):
    def f(v):
        ex.defined(tobool(s_cmp('Gt', v, 0)), 'log10 of a non-positive value')
        return uf('log10', v)
    return _map(ex, f, x, 'float')


@ext('numpy.log')
def np_log(ex, x):
    def f(v):
        ex.defined(tobool(s_cmp('Gt', v, 0)), 'log of a non-positive value')
        return uf('ln', v)
    return _map(ex, f, x, 'float')


@ext('numpy.log2')
def np_log2(ex, x):
    x = conc(x)
    if isinstance(x, int) and x > 0 and (x & (x - 1)) == 0:
        return Fraction(x.bit_length() - 1)
    raise Unsupported('log2 of a symbolic / non-power-of-two value')


@ext('scipy.special.erfc')
def sp_erfc(ex, x):
    return _map(ex, lambda v: uf('erfc', v), x, 'float')


@ext('numpy.round', 'numpy.rint', 'numpy.around')
def np_round(ex, x, decimals=0, **kw):
    if conc(decimals) != 0:
        raise Unsupported('round with decimals')

    def f(v):
        v = conc(v)
        if isinstance(v, (bool, int)):
            return v
        if isinstance(v, Fraction):
            return Fraction(round(v))
        if isz(v) and z3.is_int(v):
            return v
        t = toreal(v)
        r = ex.newvar('rint', 'int')
        ex.assume(z3.And(z3.ToReal(r) - t <= Fraction(1, 2), t - z3.ToReal(r) <= Fraction(1, 2)))
        ex.assume(z3.Implies(z3.IsInt(t), z3.ToReal(r) == t))
        return z3.ToReal(r)
    if isinstance(x, (Arr, np.ndarray)):
        a = lift(x)
        if a.kind in ('int', 'bool'):
            return copy(a)
        # one rounding witness function per array
        g = z3.Function(f'rint!{next(ex.fresh)}', *([z3.IntSort()] * a.ndim), z3.IntSort())
        ae = a.elem
        out = Arr(a.shape, lambda idx: z3.ToReal(g(*[tonum(i) for i in idx])), 'float')
        out.rint = (g, a)
        ex.__dict__.setdefault('rints', []).append((g, a))
        if a.ndim == 1:
            def fact(t):
                x = toreal(ae((t,)))
                return z3.Implies(z3.And(t >= 0, t < tonum(a.shape[0])), z3.And(z3.ToReal(g(t)) - x <= Fraction(1, 2), x - z3.ToReal(g(t)) <= Fraction(1, 2)))
            ex.add_forall(fact)
            out.rint_fact = fact
        return out
    return f(x)


_INT_BITS = {'uint8': (8, False), 'int8': (8, True), 'uint16': (16, False), 'int16': (16, True), 'uint32': (32, False), 'int32': (32, True)}


def _wrap_int(ex, v, bits, signed):
    """two's-complement wrap-around of a mathematical integer into a fixed-width numpy integer"""
    m = 2 ** bits
    if signed:
        return s_sub(s_mod(s_add(v, m // 2), m, ex), m // 2)
    return s_mod(v, m, ex)


@ext('numpy.sum')
def np_sum(ex, a, axis=None, dtype=None, **kw):
    from . import reduce
    r = reduce.reduce_(ex, 'sum', a, axis)
    if dtype is not None:
        d = as_dtype(dtype)
        if d is None:
            raise Unsupported(f'sum(dtype={dtype!r})')
        if d.name in _INT_BITS:
            # accumulation in a small integer type wraps around silently
            bits, signed = _INT_BITS[d.name]
            if isinstance(r, Arr):
                e0 = r.elem
                r = Arr(list(r.shape), lambda idx: _wrap_int(ex, e0(idx), bits, signed), 'int', np_dtype=d.name)
            else:
                r = _wrap_int(ex, r, bits, signed)
        elif d.kind == 'float':
            r = arrays.elementwise(ex, lambda v: s_cast(v, 'float'), [r], 'float') if isinstance(r, Arr) else s_cast(r, 'float')
        elif d.kind not in ('int',):
            raise Unsupported(f'sum(dtype={d.name})')
    return r


@ext('numpy.mean')
def np_mean(ex, a, axis=None, **kw):
    from . import reduce
    if 'where' in kw:
        raise Unsupported('mean(where=)')
    return reduce.reduce_(ex, 'mean', a, axis)


@ext('numpy.max', 'numpy.amax')
def np_max(ex, a, axis=None, **kw):
    from . import reduce
    return reduce.reduce_(ex, 'max', a, axis)


@ext('numpy.min', 'numpy.amin')
def np_min(ex, a, axis=None, **kw):
    from . import reduce
    return reduce.reduce_(ex, 'min', a, axis)


@ext('numpy.any')
def np_any(ex, a, axis=None, **kw):
    from . import reduce
    return reduce.reduce_(ex, 'any', a, axis)


@ext('numpy.all')
def np_all(ex, a, axis=None, **kw):
    from . import reduce
    return reduce.reduce_(ex, 'all', a, axis)


@ext('numpy.argmax')
def np_argmax(ex, a, axis=None, **kw):
    from . import reduce
    return reduce.reduce_(ex, 'argmax', a, axis)


@ext('numpy.argmin')
def np_argmin(ex, a, axis=None, **kw):
    from . import reduce
    return reduce.reduce_(ex, 'argmin', a, axis)


@ext('numpy.std')
def np_std(ex, a, axis=None, **kw):
    from . import reduce
    return reduce.reduce_(ex, 'std', a, axis)


@ext('numpy.conj', 'numpy.conjugate')
def np_conj(ex, x):
    return _map(ex, s_conj, x)


@ext('numpy.real')
def np_real(ex, x):
    if isinstance(x, (Arr, np.ndarray)):
        return arr_attr(ex, x, 'real')
    return s_real(x)


@ext('numpy.clip')
def np_clip(ex, a, lo, hi, **kw):
    def f(v):
        r = v
        if lo is not None:
            c = s_cmp('Lt', r, lo)
            r = s_ite(c, _match(lo, r), r) if not isinstance(c, bool) else (lo if c else r)
        if hi is not None:
            c = s_cmp('Gt', r, hi)
            r = s_ite(c, _match(hi, r), r) if not isinstance(c, bool) else (hi if c else r)
        return r
    k = None
    if isinstance(a, (Arr, np.ndarray)):
        k = lift(a).kind
        for b in (lo, hi):
            if b is not None:
                k = kmax(k, scalar_kind(b))
    return _map(ex, f, a, k)


def _match(bound, like):
    return bound


@ext('numpy.reshape')
def np_reshape(ex, a, *shape, **kw):
    a = _arr(ex, a)
    if len(shape) == 1 and isinstance(shape[0], (tuple, list)):
        shape = tuple(shape[0])
    shape = [conc(s) for s in shape]
    total = prod(a.shape)
    neg = [i for i, s in enumerate(shape) if isinstance(s, int) and s == -1]
    if len(neg) > 1:
        raise SymRaise('ValueError', 'can only specify one unknown dimension')
    if neg:
        known = 1
        for i, s in enumerate(shape):
            if i != neg[0]:
                known = s_mul(known, s)
        if not ex.entails(tobool(s_cmp('Gt', known, 0))):
            raise Unsupported('reshape with non-positive known dimensions')
        if not ex.branch(tobool(s_cmp('Eq', s_mod(total, known, ex), 0))):
            raise SymRaise('ValueError', 'cannot reshape array')
        shape[neg[0]] = s_floordiv(total, known, ex)
    else:
        if not ex.branch(tobool(s_cmp('Eq', prod(shape), total))):
            raise SymRaise('ValueError', 'cannot reshape array')
    # row-major flattening
    def flat_index(idx, shp):
        f = 0
        for i, d in zip(idx, shp):
            f = s_add(s_mul(f, d), i)
        return f

    def unflat(f, shp):
        out = []
        for d in reversed(shp[1:]):
            out.append(arrays.s_mod_pos(f, d))
            f = arrays.s_floordiv_pos(f, d)
        out.append(f)
        return tuple(reversed(out))
    src_shape = a.shape

    def elem(idx):
        f = flat_index(idx, shape)
        return a.elem(unflat(f, src_shape)) if src_shape else a.at()
    out = Arr(shape, elem, a.kind, prov=a.prov, view=True, np_dtype=a.np_dtype)
    return out


@ext('numpy.ravel')
def np_ravel(ex, a, **kw):
    a = _arr(ex, a)
    if a.ndim == 1:
        return a
    return np_reshape(ex, a, -1)


@ext('numpy.fft.fftfreq')
def np_fftfreq(ex, n, d=None):
    """fftfreq(n)[i] = i/n for 2i <= n-1, (i-n)/n otherwise (divided by d when given).  The element is the uninterpreted
    term fftfreq(n, i); its definition (fftfreq_def) is instantiated by the contracts that need the values."""
    dd = Fraction(1) if d is None else d

    def elem(idx):
        v = UF['fftfreq'](tonum(n), tonum(idx[0]))
        return v if d is None else s_div(v, dd, ex)
    return Arr([n], elem, 'float')


def fftfreq_def(n, i):
    nz, iz = tonum(n), tonum(i)
    return UF['fftfreq'](nz, iz) == z3.If(2 * iz <= nz - 1, z3.ToReal(iz) / z3.ToReal(nz), (z3.ToReal(iz) - z3.ToReal(nz)) / z3.ToReal(nz))


def _roll_last(ex, a, shift_of_n):
    """result[..., i] = a[..., (i - s) mod n] with 0 <= s < n given by shift_of_n(n)"""
    a = _arr(ex, a)
    n = a.shape[-1]
    s = shift_of_n(n)

    def elem(idx):
        i = idx[-1]
        d = s_sub(i, s)
        c = tobool(s_cmp('GtE', d, 0))
        j = s_ite(c, d, s_add(d, n)) if not isinstance(c, bool) else (d if c else s_add(d, n))
        return a.elem(tuple(idx[:-1]) + (j,))
    return Arr(a.shape, elem, a.kind)


def _half(ex, n):
    n = conc(n)
    if isinstance(n, int):
        return n // 2
    return tonum(n) / 2


@ext('numpy.fft.fftshift')
def np_fftshift(ex, a, axes=None):
    a = _arr(ex, a)
    if a.ndim > 1 and (axes is None or conc(axes) not in (-1, a.ndim - 1)):
        if axes is None:
            raise Unsupported('fftshift over all axes of a 2-D array')
        raise Unsupported('fftshift axis')
    return _roll_last(ex, a, lambda n: _half(ex, n))


@ext('numpy.fft.ifftshift')
def np_ifftshift(ex, a, axes=None):
    a = _arr(ex, a)
    if a.ndim > 1 and (axes is None or conc(axes) not in (-1, a.ndim - 1)):
        if axes is None:
            raise Unsupported('ifftshift over all axes of a 2-D array')
        raise Unsupported('ifftshift axis')
    # shift by -(n//2)  ==  shift by n - n//2  (mod n)
    return _roll_last(ex, a, lambda n: s_sub(n, _half(ex, n)) if not (isinstance(conc(n), int) and conc(n) == 0) else 0)


@ext('warnings.warn')
def w_warn(ex, msg, *a, **kw):
    ex.event('warn', msg, ex.where())
    return None


@ext('warnings.filterwarnings')
def w_filter(ex, *a, **kw):
    return None


@ext('numpy.set_printoptions')
def np_setprint(ex, *a, **kw):
    return None


@ext('numpy.vectorize')
def np_vectorize(ex, f=None, **kw):
    if f is None:
        return ('vectorize',)
    return f


@ext('numpy.linspace')
def np_linspace(ex, start, stop, num=50, endpoint=True, **kw):
    num_c = conc(num)

    def elem(idx):
        i = idx[0]
        den = s_sub(num, 1) if endpoint else num
        if isinstance(conc(den), int) and conc(den) == 0:
            return s_float(start)
        step = s_div(s_sub(stop, start), den, None)
        return s_add(s_float(start) if is_conc_num(start) else toreal(start), s_mul(i, step))
    if scalar_kind(num) != 'int':
        raise SymRaise('TypeError', 'num must be an integer')
    return Arr([num], elem, 'float')


@ext('numpy.array_equal')
def np_array_equal(ex, a, b):
    raise Unsupported('array_equal (use element-wise contracts)')


@ext('time.time', 'time.perf_counter', 'time.monotonic', 'time.time_ns')
def t_time(ex):
    """wall clock: a fresh unconstrained value, tagged so that frame checks can see whether it flows into a result"""
    v = z3.Real(f'nondet_time!{next(ex.fresh)}')
    ex.event('nondet', 'time', ex.where())
    return v


# ------------------------------------------------------------------------------------------ np.where, map, random
class WhereArr(Arr):
    """np.where(c)[0] for a 1-D boolean array c: the increasing enumeration of {i | c[i]}.  Its length is data dependent;
    it can be iterated with a loop invariant (ForWhereSpec), passed to np.random.choice, or - when c has one true element
    per block of M (checked) - indexed explicitly."""
    def __init__(self, ex, cond):
        cnt = ex.newvar('nwhere', 'int')
        ex.assume(z3.And(cnt >= 0, cnt <= tonum(cond.shape[0])))
        super().__init__([cnt], self._elem, 'int')
        self.cond = cond
        self.ex = ex

    def _elem(self, idx):
        raise Unsupported('element of np.where(...) by rank (no block structure known)')


@ext('numpy.where')
def np_where(ex, c, *rest):
    if rest:
        if len(rest) != 2:
            raise SymRaise('ValueError', 'either both or neither of x and y should be given')
        x, y = rest
        return elementwise(ex, lambda cc, a, b: s_ite(toz(tobool(cc)), a, b) if not isinstance(tobool(cc), bool) else (a if tobool(cc) else b), [c, x, y],
                           kmax(arrays._okind(x), arrays._okind(y)))
    c = _arr(ex, c)
    if c.ndim != 1:
        raise Unsupported('np.where on nd arrays')
    meta = getattr(c, 'meta', None) or {}
    hints = ex.__dict__.get('where_hints', [])
    if 'onehot_blocks' in meta or hints:
        M, d, S = meta['onehot_blocks'] if 'onehot_blocks' in meta else hints[0]
        i = ex.newvar('i', 'int')
        hit = tobool(c.elem((i,)))
        claim = z3.Implies(z3.And(i >= 0, i < tonum(S) * M), toz(hit) == (i % M == tonum(d(i / M))))
        rng = z3.Implies(z3.And(i >= 0, i < tonum(S)), z3.And(tonum(d(i)) >= 0, tonum(d(i)) < M))
        if ex.entails(tobool(s_eq(c.shape[0], s_mul(S, M)))) and ex.entails(claim) and ex.entails(rng):
            out = Arr([S], lambda idx: s_add(s_mul(idx[0], M), d(idx[0])), 'int')
            return (out,)
        raise Unsupported('one-hot block structure claimed for np.where could not be established')
    return (WhereArr(ex, c),)


class LazyMap:
    def __init__(self, f, arr):
        self.f = f
        self.arr = arr


def map_builtin(ex, f, seq):
    if isinstance(seq, Arr) and not isinstance(conc(seq.shape[0]), int):
        return LazyMap(f, seq)
    return [ex.call(f, [x], {}) for x in ex.iterate(seq)]


def array_of_lazymap(ex, lm):
    a = lm.arr
    if a.ndim != 1:
        raise Unsupported('map over nd array')
    sv = z3.Int(f'mapidx!{next(ex.fresh)}')
    ex.assume(z3.And(sv >= 0, sv < tonum(a.shape[0])))
    r = ex.call(lm.f, [a.elem((sv,))], {})
    if isinstance(r, np.ndarray):
        r = lift(r)
    if not isinstance(r, Arr) or not all(isinstance(conc(d), int) for d in r.shape):
        raise Unsupported('map result is not an array of concrete shape')
    rel = r.elem

    def elem(idx):
        v = rel(tuple(idx[1:]))
        s = idx[0]
        if isz(v):
            return z3.substitute(v, (sv, toz(s)))
        if isinstance(v, Cx):
            return Cx(z3.substitute(v.re, (sv, toz(s))) if isz(v.re) else v.re, z3.substitute(v.im, (sv, toz(s))) if isz(v.im) else v.im)
        return v
    return Arr([a.shape[0]] + list(r.shape), elem, r.kind, np_dtype=r.np_dtype)


@ext('numpy.random.randint')
def rnd_randint(ex, lo, hi=None, size=None, **kw):
    if size is not None:
        raise Unsupported('randint with size')
    if hi is None:
        lo, hi = 0, lo
    v = ex.newvar('randint', 'int')
    ex.event('rng', 'randint', ex.where())
    ex.defined(tobool(s_cmp('Lt', lo, hi)), 'randint: low >= high')
    ex.assume(z3.And(v >= tonum(lo), v < tonum(hi)))
    return v


@ext('numpy.random.choice')
def rnd_choice(ex, a, size=None, **kw):
    if size is not None:
        raise Unsupported('choice with size')
    ex.event('rng', 'choice', ex.where())
    if isinstance(a, WhereArr):
        c = a.cond
        n = ex.concretize(c.shape[0])
        v = ex.newvar('choice', 'int')
        if isinstance(n, int) and n <= 512:
            nonempty = z3.Or(*[toz(tobool(c.elem((j,)))) for j in range(n)]) if n else z3.BoolVal(False)
        else:
            raise Unsupported('choice from np.where over a symbolic range')
        ex.defined(nonempty, 'np.random.choice from an empty selection')
        ex.assume(z3.And(v >= 0, v < n))
        ex.assume(toz(tobool(c.elem((v,)))))
        return v
    a = _arr(ex, a) if not is_scalar(a) else a
    if isinstance(a, Arr) and isinstance(conc(a.shape[0]), int):
        k = ex.newvar('choice_idx', 'int')
        n = conc(a.shape[0])
        if n == 0:
            raise SymRaise('ValueError')
        ex.assume(z3.And(k >= 0, k < n))
        return a.elem((k,))
    raise Unsupported('np.random.choice argument')


class RandArr(Arr):
    """array drawn from numpy's global RNG: unconstrained values carrying a distribution tag"""
    pass


def _randarr(ex, shape, family, mean, std):
    k = next(ex.fresh)
    f = z3.Function(f'rand_{family}!{k}', *([z3.IntSort()] * len(shape)), z3.RealSort())
    a = RandArr(shape, lambda idx: f(*[tonum(i) for i in idx]), 'float')
    a.dist = {'family': family, 'mean': mean, 'std': std, 'id': k}
    ex.event('rng', family, ex.where())
    ex.__dict__.setdefault('draws', []).append(a)
    return a


@ext('numpy.random.normal')
def rnd_normal(ex, loc=0, scale=1, size=None, **kw):
    if size is None:
        raise Unsupported('scalar normal draw')
    shape = list(size) if isinstance(size, (tuple, list)) else [size]
    return _randarr(ex, shape, 'normal', loc, scale)


@ext('numpy.random.randn')
def rnd_randn(ex, *shape):
    return _randarr(ex, list(shape), 'normal', 0, 1)


@ext('numpy.uint8', 'numpy.int64', 'numpy.float64')
def np_scalar_type(ex, v):
    return v


@ext('numpy.split')
def np_split(ex, a, sections, axis=0):
    a = _arr(ex, a)
    meta = getattr(sections, 'meta', None) if isinstance(sections, Arr) else None
    if a.ndim == 1 and meta and 'arange' in meta:
        start, step = meta['arange']
        if conc(start) == conc(step) and isinstance(conc(step), int) and conc(step) > 0:
            # np.arange(c, n, c) must stop at the array length for the chunks to cover the array exactly
            cnt = sections.shape[0]
            n = tonum(a.shape[0])
            c = conc(step)
            want = z3.If(n > c, (n - c + c - 1) / c, 0)
            if ex.entails(tonum(cnt) == want):
                return SplitList(a, c)
    if isinstance(sections, np.ndarray) and isinstance(getattr(a, 'concrete', None), np.ndarray):
        return [lift(x) for x in np.split(a.concrete, sections)]
    raise Unsupported('np.split with unstructured section indices')


@ext('numpy.sort')
def np_sort(ex, a, axis=-1, **kw):
    """sorted copy: a fresh non-decreasing array (np.sort's permutation property is not needed by any obligation and is not modelled;
    the monotonicity instances s[i] <= s[j] for i <= j are supplied by the contracts at the index terms they need)"""
    a = _arr(ex, a)
    if a.ndim != 1:
        raise Unsupported('sort nd')
    if a.kind == 'complex':
        raise Unsupported('sort complex')
    k = next(ex.fresh)
    f = z3.Function(f'sorted!{k}', z3.IntSort(), z3.RealSort() if a.kind == 'float' else z3.IntSort())
    out = Arr(a.shape, lambda idx: f(tonum(idx[0])), a.kind)
    out.sorted_fun = f
    ex.add_forall(lambda t: z3.Implies(z3.And(t >= 0, t + 1 < tonum(a.shape[0])), f(t) <= f(t + 1)))
    ex.__dict__.setdefault('sorted_arrays', []).append(out)
    return out


@ext('numpy.shape')
def np_shape(ex, a):
    if is_scalar(a):
        return ()
    return tuple(_arr(ex, a).shape)


@ext('numpy.broadcast_to')
def np_broadcast_to(ex, a, shape, **kw):
    a = _arr(ex, a)
    shape = list(shape) if isinstance(shape, (tuple, list)) else [shape]
    if a.ndim > len(shape):
        raise SymRaise('ValueError', 'input operand has more dimensions than allowed by the axis remapping')
    off = len(shape) - a.ndim
    flags = []
    for j, d in enumerate(a.shape):
        if ex.branch(tobool(s_eq(d, shape[off + j]))):
            flags.append(False)
        elif ex.branch(tobool(s_eq(d, 1))):
            flags.append(True)
        else:
            raise SymRaise('ValueError', 'operands could not be broadcast together with remapped shapes')
    ael = a.elem
    return Arr(shape, lambda idx: ael(tuple(0 if flags[j] else idx[off + j] for j in range(len(flags)))), a.kind, prov=a.prov, view=True, np_dtype=a.np_dtype)


# ------------------------------------------------------------------------------------------ fft / filters (opaque operators)
@ext('numpy.fft.fft')
def np_fft(ex, a, n=None, axis=-1, **kw):
    from . import opaque
    a = _arr(ex, a)
    if n is not None or conc(axis) not in (-1, a.ndim - 1):
        raise Unsupported('fft with n= or along another axis')
    return opaque.apply_last_axis(ex, 'fft', (), a)


@ext('numpy.fft.ifft')
def np_ifft(ex, a, n=None, axis=-1, **kw):
    from . import opaque
    a = _arr(ex, a)
    if n is not None or conc(axis) not in (-1, a.ndim - 1):
        raise Unsupported('ifft with n= or along another axis')
    return opaque.apply_last_axis(ex, 'ifft', (), a)


class SOS:
    """second-order sections of a Bessel low-pass design: identified by (order, cutoff, fs); numerically opaque"""
    def __init__(self, n, W, fs, btype, norm):
        self.params = (n, W, fs, btype, norm)


@ext('scipy.signal.bessel')
def sg_bessel(ex, N=None, Wn=None, btype='low', analog=False, output='ba', norm='phase', fs=None):
    if output != 'sos' or analog:
        raise Unsupported('bessel design other than digital sos')
    return SOS(N, Wn, fs, btype, norm)


@ext('scipy.signal.sosfiltfilt')
def sg_sosfiltfilt(ex, sos, x, axis=-1, **kw):
    from . import opaque
    if not isinstance(sos, SOS):
        raise Unsupported('sosfiltfilt with an unknown filter')
    x = _arr(ex, x)
    if conc(axis) not in (-1, x.ndim - 1):
        # filtering along another axis is a different operator on the whole array: an opaque result that equals nothing else
        k = next(ex.fresh)
        fr = z3.Function(f'L_axis{conc(axis)}_re!{k}', *([z3.IntSort()] * x.ndim), z3.RealSort())
        fi = z3.Function(f'L_axis{conc(axis)}_im!{k}', *([z3.IntSort()] * x.ndim), z3.RealSort())
        if x.kind == 'complex':
            return Arr(x.shape, lambda idx: Cx(fr(*[tonum(i) for i in idx]), fi(*[tonum(i) for i in idx])), 'complex')
        return Arr(x.shape, lambda idx: fr(*[tonum(i) for i in idx]), 'float')
    return opaque.apply_last_axis(ex, 'L', sos.params, x)


@ext('scipy.signal.sosfreqz')
def sg_sosfreqz(ex, sos, worN=512, whole=False, fs=None):
    if not isinstance(sos, SOS):
        raise Unsupported('sosfreqz with an unknown filter')
    k = next(ex.fresh)
    fr = z3.Function(f'freqz_re!{k}', z3.IntSort(), z3.RealSort())
    fi = z3.Function(f'freqz_im!{k}', z3.IntSort(), z3.RealSort())
    H = Arr([worN], lambda idx: Cx(fr(tonum(idx[0])), fi(tonum(idx[0]))), 'complex')
    H.freqz = (sos.params, worN, whole, fs)
    ex.__dict__.setdefault('freqz', []).append(H)
    w = Arr([worN], lambda idx: z3.Function(f'freqz_w!{k}', z3.IntSort(), z3.RealSort())(tonum(idx[0])), 'float')
    return (w, H)


@ext('numpy.cumsum')
def np_cumsum(ex, a, axis=None, **kw):
    """running sum: only its shape/kind is modelled (elements are unconstrained reals); enough for phase terms that enter through exp(j*phase)"""
    a = _arr(ex, a)
    if a.ndim != 1 or a.kind == 'complex':
        raise Unsupported('cumsum of nd / complex arrays')
    f = z3.Function(f'cumsum!{next(ex.fresh)}', z3.IntSort(), z3.RealSort() if a.kind == 'float' else z3.IntSort())
    return Arr(a.shape, lambda idx: f(tonum(idx[0])), a.kind)


# ------------------------------------------------------------------------------------------ opaque numerics (congruence only)
class Record:
    """result object of an external call: attribute bag"""
    def __init__(self, **attrs):
        self._pyvc_attrs = attrs


@ext('scipy.integrate.solve_ivp')
def sp_solve_ivp(ex, fun, t_span=None, y0=None, method='RK45', args=None, vectorized=False, **kw):
    """numerically opaque: a deterministic function of its arguments (congruence only); the call is recorded so that contracts can
    compare the arguments of two calls"""
    y0 = _arr(ex, y0)
    ex.event('solve_ivp', {'fun': fun, 't_span': t_span, 'y0': y0, 'method': method, 'args': args, 'vectorized': vectorized})
    k = next(ex.fresh)
    T = ex.newvar('nt', 'int')
    ex.assume(T >= 1)
    fr = z3.Function(f'ivp_re!{k}', z3.IntSort(), z3.IntSort(), z3.RealSort())
    fi = z3.Function(f'ivp_im!{k}', z3.IntSort(), z3.IntSort(), z3.RealSort())
    y = Arr([y0.shape[0], T], lambda idx: Cx(fr(tonum(idx[0]), tonum(idx[1])), fi(tonum(idx[0]), tonum(idx[1]))), 'complex')
    ex.event('solve_ivp_result', y)
    return Record(y=y, t=Arr([T], lambda idx: ex.newvar('t', 'real'), 'float'), success=True)


@ext('scipy.signal.find_peaks')
def sg_find_peaks(ex, x, **kw):
    n = ex.newvar('npeaks', 'int')
    ex.assume(n >= 0)
    f = z3.Function(f'peak!{next(ex.fresh)}', z3.IntSort(), z3.IntSort())
    return (Arr([n], lambda idx: f(tonum(idx[0])), 'int'), {})


@ext('scipy.signal.peak_widths')
def sg_peak_widths(ex, x, peaks, **kw):
    peaks = _arr(ex, peaks)
    outs = []
    for q in range(4):
        f = z3.Function(f'pw{q}!{next(ex.fresh)}', z3.IntSort(), z3.RealSort())
        outs.append(Arr(list(peaks.shape), (lambda idx, f=f: f(tonum(idx[0]))), 'float'))
    return tuple(outs)


@ext('numpy.flatnonzero')
def np_flatnonzero(ex, a):
    """indices of the non-zero entries of the flattened array = np.where(a.ravel() != 0)[0] (1-D arrays only)"""
    a = _arr(ex, a)
    if a.ndim != 1:
        raise Unsupported('np.flatnonzero on nd arrays')
    if a.kind != 'bool':
        a0 = a
        a = Arr(list(a0.shape), lambda idx: tobool(s_ne(a0.elem(idx), 0)), 'bool')
        a.meta = getattr(a0, 'meta', None)
    return np_where(ex, a)[0]


@ext('numpy.atleast_1d')
def np_atleast_1d(ex, a):
    """0-d -> shape (1,) view; anything else is returned as it is (numpy returns the same array object)"""
    if not isinstance(a, (Arr, np.ndarray)):
        if isinstance(a, (list, tuple)):
            return from_seq(ex, a)
        v = a
        return Arr([1], lambda idx: v, scalar_kind(v))
    a = _arr(ex, a)
    if a.ndim == 0:
        a0 = a
        return Arr([1], lambda idx: a0.at(), a0.kind, prov=a0.prov, view=True, np_dtype=a0.np_dtype)
    return a
