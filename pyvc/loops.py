"""Loop contracts: an inductive invariant supplied by the sidecar contract turns a loop of unbounded trip count
into three families of obligations (establishment, preservation, use after exit)."""
import ast
from .values import *
from .interp import PathEnd, Brk, Cont


def assigned_names(stmts):
    """names a loop body writes: plain / augmented / annotated assignments, for-targets, with-targets, walrus, and the base names
    of subscript or attribute stores (objects mutated in place)"""
    out = set()

    def base(t):
        while isinstance(t, (ast.Subscript, ast.Attribute, ast.Starred)):
            t = t.value
        return t.id if isinstance(t, ast.Name) else None

    def target(t):
        if isinstance(t, (ast.Tuple, ast.List)):
            for e in t.elts:
                target(e)
        else:
            b = base(t)
            if b:
                out.add(b)
    for node in stmts:
        for n in ast.walk(node):
            if isinstance(n, ast.Assign):
                for t in n.targets:
                    target(t)
            elif isinstance(n, (ast.AugAssign, ast.AnnAssign)):
                target(n.target)
            elif isinstance(n, (ast.For, ast.AsyncFor)):
                target(n.target)
            elif isinstance(n, ast.NamedExpr):
                target(n.target)
            elif isinstance(n, ast.With):
                for it in n.items:
                    if it.optional_vars is not None:
                        target(it.optional_vars)
            elif isinstance(n, (ast.FunctionDef, ast.Lambda)):
                pass
    return out


def checked_havoc(spec, ex, st, env, *args):
    """run the contract's havoc and make sure it covered every loop-carried variable: a name that exists before the loop and is written
    in the body must have been replaced (otherwise the 'arbitrary iteration' would silently start from the entry value of that
    variable and the induction would be unsound)"""
    written = assigned_names(st.body) | (assigned_names([ast.Assign(targets=[st.target], value=ast.Constant(0))]) if isinstance(st, ast.For) else set())
    before = {n: (env[n], getattr(env[n], 'elem', None)) for n in written if n in env}
    spec.havoc(ex, env, *args)
    # havoc'd = replaced by another value, or (arrays) given new contents in place
    kept = sorted(n for n, (v, el) in before.items() if n in env and env[n] is v and getattr(v, 'elem', None) is el
                  and not (isinstance(st, ast.For) and n in assigned_names([ast.Assign(targets=[st.target], value=ast.Constant(0))])))
    if kept:
        raise Unsupported(f'{spec.name}: the loop writes {kept}, which the loop contract leaves at the entry value (the invariant must cover every loop-carried variable)')


class LoopSpec:
    """havoc(ex, env) replaces the loop-carried variables by fresh symbols (and returns ghost data);
    inv(ex, env, ghost) returns the list of z3 Bool conjuncts of the invariant for the state in env
    (universally quantified conjuncts are given as python functions k -> Bool in the second list)."""
    def __init__(self, name, havoc, inv, ghost_init=None):
        self.name = name
        self.havoc = havoc
        self.inv = inv
        self.ghost_init = ghost_init

    def run(self, ex, st, env):
        ghost = self.ghost_init(ex, env) if self.ghost_init else None
        conj, foralls = self.inv(ex, env, ghost)
        ex.obls.append((self.name + '.init', list(ex.pc), list(conj), list(foralls), 'invariant holds on loop entry', list(ex.foralls)))
        checked_havoc(self, ex, st, env, ghost)
        conj, foralls = self.inv(ex, env, ghost)
        for c in conj:
            ex.assume(c)
        for f in foralls:
            ex.add_forall(f)
        if isinstance(st, ast.While):
            go = ex.truth(ex.ev(st.test, env))
        else:
            raise Unsupported('for-loop invariants are handled by ForSpec')
        if not go:
            return          # exit path: invariant and negated guard hold
        try:
            ex.block(st.body, env)
        except Brk:
            return          # exit by break with the state reached
        except Cont:
            pass
        ex.__dict__.setdefault('loop_post', {})[self.name] = (ghost, dict((k, v) for k, v in env.items() if not k.startswith('__')))
        conj2, foralls2 = self.inv(ex, env, ghost)
        ex.obls.append((self.name + '.preserve', list(ex.pc), list(conj2), list(foralls2), 'invariant is preserved by an arbitrary iteration', list(ex.foralls)))
        raise PathEnd()


class ForWhereSpec:
    """`for i in np.where(c)[0]:` with an invariant Inv(bound): "every index t with c(t) and t < bound has been processed".
    Obligations: Inv(0) on entry; for an arbitrary i with c(i): Inv(i) and the body establish Inv(i+1); after the loop Inv(n).
    (Between two consecutive elements of the enumeration the processed set does not change, so Inv(W[k]+1) = Inv(W[k+1]).)"""
    def __init__(self, name, havoc, inv):
        self.name = name
        self.havoc = havoc
        self.inv = inv

    def run(self, ex, st, env):
        from .extern import WhereArr
        it = ex.ev(st.iter, env)
        if not isinstance(it, WhereArr):
            raise Unsupported(f'{self.name}: loop iterable is not np.where(...)[0]')
        c = it.cond
        n = c.shape[0]
        conj, foralls = self.inv(ex, env, 0)
        ex.obls.append((self.name + '.init', list(ex.pc), list(conj), list(foralls), 'invariant holds on loop entry (nothing processed)', list(ex.foralls)))
        checked_havoc(self, ex, st, env)
        if ex.choice(self.name + '.iter'):
            i = ex.newvar('i_loop', 'int')
            ex.assume(z3.And(i >= 0, i < tonum(n)))
            ex.assume(toz(tobool(c.elem((i,)))))
            ex.add_index_term(i)
            conj, foralls = self.inv(ex, env, i)
            for cc in conj:
                ex.assume(cc)
            for f in foralls:
                ex.add_forall(f)
            ex.assign(st.target, i, env)
            try:
                ex.block(st.body, env)
            except (Brk, Cont):
                raise Unsupported('break/continue inside a for-where loop under contract')
            conj2, foralls2 = self.inv(ex, env, i + 1)
            ex.obls.append((self.name + '.preserve', list(ex.pc), list(conj2), list(foralls2), 'processing one more selected index preserves the invariant', list(ex.foralls)))
            raise PathEnd()
        conj, foralls = self.inv(ex, env, tonum(n))
        for cc in conj:
            ex.assume(cc)
        for f in foralls:
            ex.add_forall(f)


class ForIndexSpec:
    """`for x in seq:` where seq has a symbolic length and can be indexed (an Arr, or np.split chunks): invariant Inv(k) over the
    iteration counter k.  Obligations: Inv(0); for arbitrary 0 <= k < len: Inv(k) and the body with x = seq[k] give Inv(k+1);
    after the loop Inv(len)."""
    def __init__(self, name, havoc, inv, on_iteration=None):
        self.name = name
        self.havoc = havoc
        self.inv = inv
        self.on_iteration = on_iteration

    def run(self, ex, st, env):
        it = ex.ev(st.iter, env)
        if isinstance(it, (list, tuple)):
            # concrete number of items: plain unrolling, no invariant needed
            for x in it:
                ex.assign(st.target, x, env)
                ex.block(st.body, env)
            return
        if hasattr(it, 'sym_len'):
            n, item = it.sym_len, it.sym_item
        elif isinstance(it, Arr) and it.ndim >= 1:
            from . import arrays
            n, item = tonum(it.shape[0]), (lambda k: arrays.getitem(ex, it, k))
        else:
            raise Unsupported(f'{self.name}: loop iterable {it!r} is not indexable')
        conj, foralls = self.inv(ex, env, 0)
        ex.obls.append((self.name + '.init', list(ex.pc), list(conj), list(foralls), 'invariant holds on loop entry', list(ex.foralls)))
        checked_havoc(self, ex, st, env)
        if ex.choice(self.name + '.iter'):
            k = ex.newvar('k_loop', 'int')
            ex.assume(z3.And(k >= 0, k < n))
            ex.add_index_term(k)
            conj, foralls = self.inv(ex, env, k)
            for cc in conj:
                ex.assume(cc)
            for f in foralls:
                ex.add_forall(f)
            ex.assign(st.target, item(k), env)
            ex.__dict__.setdefault('loop_iter', {})[self.name] = k
            nev = len(ex.events)
            try:
                ex.block(st.body, env)
            except (Brk, Cont):
                raise Unsupported('break/continue inside a for loop under contract')
            ex.__dict__.setdefault('loop_events', {})[self.name] = (k, ex.events[nev:], dict((a, b) for a, b in env.items() if not a.startswith('__')))
            conj2, foralls2 = self.inv(ex, env, k + 1)
            ex.obls.append((self.name + '.preserve', list(ex.pc), list(conj2), list(foralls2), 'one more iteration preserves the invariant', list(ex.foralls)))
            raise PathEnd()
        conj, foralls = self.inv(ex, env, n)
        for cc in conj:
            ex.assume(cc)
        for f in foralls:
            ex.add_forall(f)
