"""./vcheck audit  - mechanical audit of what the verifier trusts.

 1. axioms:   every lemma schema of pyvc/axioms.py is instantiated on random numeric arguments (chosen so that the conditional
              forms fire) and evaluated with the real functions (math.*): a false instance is an unsound axiom.
 2. cpython:  cross-check of the symbolic executor and its numpy models (pyvc/extern.py) against CPython: repository functions are
              executed by the executor on concrete inputs and natively on the same inputs; results must agree.  Only calls whose
              result contains no opaque operator (fft, filters, random draws) can be compared.
 3. scan:     list of every assumption site: assumed external contracts (extern.EXT), contract-supplied stand-ins
              (ex.overrides), assume() calls and uninterpreted special functions; written to evidence/ASSUMPTIONS.json.
Exit 0 when 1 and 2 find no disagreement, 1 otherwise."""
import ast, glob, json, math, os, random, sys, time
from fractions import Fraction
import numpy as np
import z3

from . import axioms, numeval, extern
from .values import UF, PI, Arr, Cx, Obj, isz, toreal, conc
from .vc import Ctx, run_native, load_native

HERE = os.path.dirname(os.path.dirname(os.path.abspath(__file__)))


# ------------------------------------------------------------------------------------------------ 1. axioms

# exact-ish evaluation (mpmath, 400 digits) for the axiom audit: floating-point tolerances would hide or fake strict inequalities
def mp_eval(t, cache):
    import mpmath as mp
    mp.mp.dps = 400
    k = t.get_id()
    if k in cache:
        return cache[k]
    v = _mp(t, cache, mp)
    cache[k] = v
    return v


def _mp(t, cache, mp):
    if z3.is_int_value(t):
        return mp.mpf(t.as_long())
    if z3.is_rational_value(t):
        return mp.mpf(t.numerator_as_long()) / mp.mpf(t.denominator_as_long())
    if z3.is_true(t):
        return True
    if z3.is_false(t):
        return False
    d = t.decl()
    kind, name = d.kind(), d.name()
    ch = t.children()
    a = lambda: [mp_eval(c, cache) for c in ch]
    EPS = mp.mpf(10) ** -300            # relative slack
    FLOOR = mp.mpf(10) ** -380          # absolute slack: far below every genuinely small value that can occur (erfc(22) ~ 1e-212), above rounding residues (1e-400)
    if kind == z3.Z3_OP_UNINTERPRETED:
        if not ch:
            if name == 'pi':
                return mp.pi
            raise numeval.Bad('unbound ' + name)
        x = a()
        try:
            if name == 'sqrt':
                if x[0] < 0:
                    raise numeval.Bad('domain')
                return mp.sqrt(x[0])
            if name == 'pow10':
                return mp.power(10, x[0])
            if name == 'log10':
                if x[0] <= 0:
                    raise numeval.Bad('domain')
                return mp.log10(x[0])
            if name == 'exp':
                return mp.exp(x[0])
            if name == 'ln':
                if x[0] <= 0:
                    raise numeval.Bad('domain')
                return mp.log(x[0])
            if name == 'cos':
                return mp.cos(x[0])
            if name == 'sin':
                return mp.sin(x[0])
            if name == 'erfc':
                return mp.erfc(x[0])
            if name == 'pow2':
                return mp.power(2, x[0])
            if name == 'powr':
                if x[0] <= 0:
                    raise numeval.Bad('domain')
                return mp.power(x[0], x[1])
            if name == 'atan2':
                if x[0] == 0 and x[1] == 0:
                    raise numeval.Bad('domain')
                return mp.atan2(x[0], x[1])
            if name == 'fftfreq':
                n, i = int(x[0]), int(x[1])
                if n <= 0:
                    raise numeval.Bad('domain')
                return mp.mpf(i) / n if 2 * i <= n - 1 else mp.mpf(i - n) / n
        except (ValueError, ZeroDivisionError, OverflowError):
            raise numeval.Bad('domain')
        raise numeval.Bad('uninterpreted ' + name)
    if kind == z3.Z3_OP_ADD:
        return sum(a(), mp.mpf(0))
    if kind == z3.Z3_OP_MUL:
        r = mp.mpf(1)
        for x in a():
            r *= x
        return r
    if kind == z3.Z3_OP_SUB:
        xs = a()
        return xs[0] - sum(xs[1:], mp.mpf(0))
    if kind == z3.Z3_OP_UMINUS:
        return -a()[0]
    if kind == z3.Z3_OP_DIV:
        x, y = a()
        if y == 0:
            raise numeval.Bad('div0')
        return x / y
    if kind == z3.Z3_OP_IDIV:
        x, y = a()
        if y == 0:
            raise numeval.Bad('div0')
        return mp.floor(x / y) if y > 0 else -mp.floor(x / -y)
    if kind == z3.Z3_OP_MOD:
        x, y = a()
        if y == 0:
            raise numeval.Bad('div0')
        return x - abs(y) * mp.floor(x / abs(y))
    if kind == z3.Z3_OP_POWER:
        x, y = a()
        return mp.power(x, y)
    if kind == z3.Z3_OP_TO_REAL:
        return a()[0]
    if kind == z3.Z3_OP_TO_INT:
        return mp.floor(a()[0])
    if kind == z3.Z3_OP_ITE:
        return mp_eval(ch[1] if mp_eval(ch[0], cache) else ch[2], cache)
    if kind == z3.Z3_OP_AND:
        return all(mp_eval(c, cache) for c in ch)
    if kind == z3.Z3_OP_OR:
        return any(mp_eval(c, cache) for c in ch)
    if kind == z3.Z3_OP_NOT:
        return not a()[0]
    if kind == z3.Z3_OP_IMPLIES:
        return (not mp_eval(ch[0], cache)) or mp_eval(ch[1], cache)
    if kind in (z3.Z3_OP_EQ, z3.Z3_OP_IFF):
        x, y = a()
        if isinstance(x, bool) or isinstance(y, bool):
            return bool(x) == bool(y)
        return abs(x - y) <= EPS * max(abs(x), abs(y)) + FLOOR
    if kind == z3.Z3_OP_LE:            # purely relative slack (80 working digits): never turns a tiny positive number into "<= 0"
        x, y = a()
        return x <= y + EPS * max(abs(x), abs(y)) + FLOOR
    if kind == z3.Z3_OP_LT:
        x, y = a()
        return x < y
    if kind == z3.Z3_OP_GE:
        x, y = a()
        return x >= y - EPS * max(abs(x), abs(y)) - FLOOR
    if kind == z3.Z3_OP_GT:
        x, y = a()
        return x > y
    raise numeval.Bad(f'op {name}')

def audit_axioms(trials=400, seed=0):
    rng = random.Random(seed)
    R = lambda x: z3.RealVal(Fraction(x).limit_denominator(10 ** 6))
    n_inst = n_bad = 0
    bad = []
    names1 = ['sqrt', 'pow10', 'log10', 'exp', 'ln', 'cos', 'sin', 'erfc']
    for k in range(trials):
        x, y = rng.choice([0, 1, -1, 0.5, 2, rng.uniform(-3, 3), rng.uniform(0, 40), rng.uniform(-0.01, 0.01)]), rng.choice([0, 1, 2, rng.uniform(-3, 3), rng.uniform(0, 5)])
        nm = names1[k % len(names1)]
        f = UF[nm]
        if nm == 'erfc':                      # keep erfc's values above the evaluation floor
            x, y = max(-3, min(3, x)), max(-3, min(3, y))
        pool = [R(x), R(y), R(x) + R(y), R(x) - R(y), -R(x), R(x) * 2, R(x) / 2, R(abs(x)) + 1, R(abs(x) + 1) * R(abs(y) + 1), PI * R(y), PI / 2 - R(x), R(x) + 2 * PI, R(x) + PI,
                UF['pow10'](R(x) / 3), UF['exp'](R(x) / 3), UF['ln'](R(abs(x)) + 1), UF['log10'](R(abs(x)) + 1), UF['sqrt'](R(abs(x)))]
        terms = [f(a) for a in [pool[0], pool[1], pool[2]] + rng.sample(pool[3:], 3)]
        # companions: sin with cos, exp with ln, pow10 with log10 and sqrt
        comp = {'cos': 'sin', 'sin': 'cos', 'exp': 'ln', 'ln': 'exp', 'pow10': 'log10', 'log10': 'pow10', 'sqrt': 'pow10', 'erfc': 'erfc'}[nm]
        terms += [UF[comp](a) for a in (pool[0], pool[1], pool[2])]
        if k % 4 == 0:
            for b_, e_ in ((abs(x) + 0.5, y), (2, x), (10, y), (abs(y) + 1, 2), (abs(y) + 1, 0.5)):
                terms.append(UF['powr'](R(b_), R(e_)))
            for kk in (0, 1, 5, int(abs(x) * 3)):
                terms.append(UF['pow2'](z3.IntVal(kk)))
                terms.append(UF['pow2'](z3.IntVal(kk) + 1))
            terms.append(UF['atan2'](R(y), R(x)))
            for nn in (1, 2, 7, 8):
                for ii in (0, nn // 2, nn - 1):
                    terms.append(UF['fftfreq'](z3.IntVal(nn), z3.IntVal(ii)))
        cache = {}
        for level in ('all', 'basic'):
            lem = axioms.instantiate(terms, level=level)
            for l in lem:
                n_inst += 1
                try:
                    v = mp_eval(l, cache)
                except numeval.Bad:
                    continue
                if v is not True:
                    n_bad += 1
                    if len(bad) < 8:
                        bad.append(str(z3.simplify(l))[:400])
    return {'instances_evaluated': n_inst, 'false_instances': n_bad, 'examples': bad}


# ------------------------------------------------------------------------------------------------ 2. CPython cross-check
def to_py(v, env=None):
    """executor value -> python / numpy value (all symbols must be concrete)"""
    if isinstance(v, Arr):
        shp = [conc(s) for s in v.shape]
        if not all(isinstance(s, int) for s in shp):
            raise numeval.Bad('symbolic shape')
        out = np.empty(shp, dtype=complex if v.kind == 'complex' else float)
        for ix in np.ndindex(*shp):
            out[ix] = to_py(v.elem(tuple(int(i) for i in ix)))
        return out
    if isinstance(v, Cx):
        return complex(to_py(v.re), to_py(v.im))
    if isinstance(v, Obj):
        return {k: to_py(x) for k, x in v.f.items() if k not in ('execution_time',)}
    if isinstance(v, Fraction):
        return v.numerator / v.denominator
    if isz(v):
        v = z3.simplify(v)
        st, seen = [v], set()
        while st:
            x = st.pop()
            if x.get_id() in seen:
                continue
            seen.add(x.get_id())
            if z3.is_app(x) and x.decl().kind() == z3.Z3_OP_UNINTERPRETED and x.decl().name() not in numeval.SPECIAL and x.decl().name() != 'pi':
                raise numeval.Bad('result contains the opaque term ' + x.decl().name())
            st.extend(x.children())
        return numeval.evaluate(v, {}, 0, {})
    if isinstance(v, (list, tuple)):
        return [to_py(x) for x in v]
    if isinstance(v, np.ndarray):
        return v
    if type(v).__name__ == 'FStr':
        out = ''
        for part in v.parts:
            if isinstance(part, str):
                out += part
            else:
                val, spec = part
                pv = to_py(val)
                out += format(pv, spec or '') if not isinstance(pv, str) else pv
        return out
    return v


def canon(v):
    """canonical, transport-safe form of a result (used on both sides)"""
    if isinstance(v, dict):
        return {'dict': {k: canon(x) for k, x in v.items() if k in ('signal', 'noise', 'data')} if any(k in v for k in ('signal', 'noise', 'data')) else {k: canon(x) for k, x in v.items()}}
    if hasattr(v, 'signal') and hasattr(v, 'noise'):
        return canon({'signal': v.signal, 'noise': v.noise})
    if hasattr(v, 'data') and not isinstance(v, (np.ndarray, memoryview)) and type(v).__name__ == 'binary_sequence':
        return canon({'data': v.data})
    if v is None:
        return None
    if isinstance(v, str):
        return {'str': v}
    if isinstance(v, (bool, np.bool_)):
        return {'arr': [[], [float(v)], [0.0]]}
    a = np.asarray(v)
    if a.dtype == object:
        return {'repr': repr(v)}
    a = a.astype(complex)
    return {'arr': [list(a.shape), [float(x) for x in a.real.ravel()], [float(x) for x in a.imag.ravel()]]}


def _unwrap(a):
    if isinstance(a, dict) and 'dict' in a:
        d = {k: v for k, v in a['dict'].items() if v is not None}
        if len(d) == 1:
            return next(iter(d.values()))
        return {'dict': d}
    return a


def same(a, b, tol=1e-9):
    a, b = _unwrap(a), _unwrap(b)
    if isinstance(a, dict) and isinstance(b, dict) and set(a) == set(b) and len(a) == 1:
        k = next(iter(a))
        if k == 'dict':
            return set(a[k]) == set(b[k]) and all(same(a[k][q], b[k][q], tol) for q in a[k])
        if k == 'arr':
            (s1, r1, i1), (s2, r2, i2) = a[k], b[k]
            return list(s1) == list(s2) and bool(np.allclose(r1, r2, rtol=tol, atol=1e-12)) and bool(np.allclose(i1, i2, rtol=tol, atol=1e-12))
        return a[k] == b[k]
    if a is None or b is None:
        return a is None and b is None
    return False


def _same_old(a, b, tol=1e-9):
    if isinstance(a, dict) and isinstance(b, dict):
        return all(k in b and same(a[k], b[k], tol) for k in a)
    if a is None or b is None:
        return a is None and b is None
    if isinstance(a, str) or isinstance(b, str):
        return str(a) == str(b)
    try:
        a_, b_ = np.asarray(a), np.asarray(b)
        if a_.shape != b_.shape:
            return False
        return bool(np.allclose(a_.astype(complex), b_.astype(complex), rtol=tol, atol=1e-12))
    except Exception:
        return a == b


def cpython_cases():
    """(label, qualified name, builder of executor arguments, native callable) - inputs are concrete"""
    F = Fraction
    cases = []

    def add(label, qual, sym_args, sym_kw, native):
        cases.append((label, qual, sym_args, sym_kw, native))
    for v, n in ((5, None), (5, 8), (0, 3), (255, 8), (1, 1), (37, 6)):
        add(f'dec2bin({v},{n})', 'utils.dec2bin', [v] + ([n] if n is not None else []), {}, lambda v=v, n=n: __import__('opticomlib.utils', fromlist=['x']).dec2bin(v, n) if n is not None else __import__('opticomlib.utils', fromlist=['x']).dec2bin(v))
    for s in ('1011', '1,0,1', '1 0 0 1', '3.5,2', '-1 2e3'):
        add(f'str2array({s!r})', 'utils.str2array', [s], {}, lambda s=s: __import__('opticomlib.utils', fromlist=['x']).str2array(s))
    for x, u in ((1500.0, 'Hz'), (0.002, 's'), (3.3e9, 'Hz'), (1e-13, 'm'), (0.0, 'W'), (-47.0, 'V'), (999.9999, 'Hz')):
        add(f'si({x},{u})', 'utils.si', [F(x).limit_denominator(10 ** 15), u], {}, lambda x=x, u=u: __import__('opticomlib.utils', fromlist=['x']).si(x, u))
    for x in (0.0, 3.0, -10.0, 26.0):
        add(f'idb({x})', 'utils.idb', [F(x)], {}, lambda x=x: __import__('opticomlib.utils', fromlist=['x']).idb(x))
        add(f'idbm({x})', 'utils.idbm', [F(x)], {}, lambda x=x: __import__('opticomlib.utils', fromlist=['x']).idbm(x))
    for x in (1.0, 2.5, 1e-3):
        add(f'db({x})', 'utils.db', [F(x).limit_denominator(10 ** 9)], {}, lambda x=x: __import__('opticomlib.utils', fromlist=['x']).db(x))
        add(f'dbm({x})', 'utils.dbm', [F(x).limit_denominator(10 ** 9)], {}, lambda x=x: __import__('opticomlib.utils', fromlist=['x']).dbm(x))
    for x in (0.0, 1.0, -2.0, 3.7):
        add(f'Q({x})', 'utils.Q', [F(x).limit_denominator(10 ** 9)], {}, lambda x=x: __import__('opticomlib.utils', fromlist=['x']).Q(x))
    for x, al, T in ((0.0, 1.0, 2.0), (0.3, 1.0, 2.0), (0.5, 1.0, 2.0), (0.2, 0.5, 1.0), (0.7, 0.5, 1.0), (2.0, 0.5, 1.0)):
        add(f'rcos({x},{al},{T})', 'utils.rcos', [F(x).limit_denominator(1000)], {'alpha': F(al).limit_denominator(1000), 'T': F(T).limit_denominator(1000)},
            lambda x=x, al=al, T=T: __import__('opticomlib.utils', fromlist=['x']).rcos(x, alpha=al, T=T))

    # array-level device and signal-type functions (gv fixed: sps=4, R=1e9)
    from .arrays import lift
    def gvn():
        from opticomlib.typing import gv
        gv(sps=4, R=1e9)
        return gv
    def mkgv(ex):
        from contracts.common import mk_gv
        return mk_gv(ex, sps=4, R=10 ** 9)
    bits = np.array([1, 0, 1, 1, 0, 0, 1, 0], dtype=np.uint8)
    xs = np.array([0.5, -1.25, 2.0, 3.5, -0.75, 1.0, 0.25, 4.0])
    ys = np.array([1.5, 0.25, -2.0, 0.5, 0.75, -1.0, 2.25, 1.0])
    cs = xs + 1j * ys

    def esig(ex, s_, n_=None):
        return Obj('electrical_signal', signal=lift(np.array(s_)), noise=None if n_ is None else lift(np.array(n_)), execution_time=0)

    def osig(ex, s_, n_=None, npol=1):
        return Obj('optical_signal', signal=lift(np.array(s_)), noise=None if n_ is None else lift(np.array(n_)), n_pol=npol, execution_time=0)
    for shape in ('nrz', 'rz'):
        add(f'DAC({shape})', 'devices.DAC', lambda ex, shape=shape: (mkgv(ex), ([Obj('binary_sequence', data=lift(bits), execution_time=0)], {'Vout': Fraction(5, 2), 'bias': Fraction(-1, 2), 'pulse_shape': shape}))[1], {},
            lambda shape=shape: (gvn(), __import__('opticomlib.devices', fromlist=['x']).DAC(bits, Vout=2.5, bias=-0.5, pulse_shape=shape).signal)[1])
    add('SAMPLER', 'devices.SAMPLER', lambda ex: (mkgv(ex), ([esig(ex, xs, ys), 1], {}))[1], {},
        lambda: (gvn(), (lambda o: {'signal': o.signal, 'noise': o.noise})(__import__('opticomlib.devices', fromlist=['x']).SAMPLER(__import__('opticomlib.typing', fromlist=['x']).electrical_signal(xs, ys), 1)))[1])
    for opn, meth in (('add', '__add__'), ('sub', '__sub__'), ('mul', '__mul__')):
        def nat(meth=meth):
            T = __import__('opticomlib.typing', fromlist=['x'])
            o = getattr(T.electrical_signal(xs, ys), meth)(T.electrical_signal(ys))
            return {'signal': o.signal, 'noise': o.noise}
        add(f'electrical_signal.{opn}', f'typing.electrical_signal.{meth}', lambda ex: ([esig(ex, xs, ys), esig(ex, ys)], {}), {}, nat)
    for part in ('signal', 'noise', 'all'):
        def natp(part=part):
            T = __import__('opticomlib.typing', fromlist=['x'])
            return T.electrical_signal(cs, ys).power(part)
        add(f'electrical_signal.power({part})', 'typing.electrical_signal.power', lambda ex, part=part: ([esig(ex, cs, ys), part], {}), {}, natp)

    def nat_mzm():
        gvn()
        T = __import__('opticomlib.typing', fromlist=['x'])
        D = __import__('opticomlib.devices', fromlist=['x'])
        o = D.MZM(T.optical_signal(cs), T.electrical_signal(xs), bias=1.0, Vpi=5.0, loss_dB=3.0, ER_dB=20.0)
        return {'signal': o.signal}
    add('MZM', 'devices.MZM', lambda ex: (mkgv(ex), ([osig(ex, cs), esig(ex, xs)], {'bias': 1, 'Vpi': 5, 'loss_dB': 3, 'ER_dB': 20}))[1], {}, nat_mzm)

    def nat_pm():
        gvn()
        T = __import__('opticomlib.typing', fromlist=['x'])
        D = __import__('opticomlib.devices', fromlist=['x'])
        o = D.PM(T.optical_signal(np.array([cs, cs[::-1]])), T.electrical_signal(xs), Vpi=5.0)
        return {'signal': o.signal}
    add('PM(2pol)', 'devices.PM', lambda ex: (mkgv(ex), ([osig(ex, np.array([cs, cs[::-1]]), npol=2), esig(ex, xs)], {'Vpi': 5}))[1], {}, nat_pm)
    add('shortest_int', 'utils.shortest_int', [lift(xs), 50], {}, lambda: __import__('opticomlib.utils', fromlist=['x']).shortest_int(xs, 50))
    for order in (7, 9):
        add(f'PRBS({order})', 'devices.PRBS', lambda ex, order=order: (mkgv(ex), ([], {'order': order}))[1], {}, lambda order=order: __import__('opticomlib.devices', fromlist=['x']).PRBS(order=order).data)
    for M in (4, 8):
        enc_in = np.array([1, 0, 1, 1, 0, 0, 0, 1, 1, 1, 0, 1], dtype=np.uint8)
        add(f'PPM_ENCODER({M})', 'ppm.PPM_ENCODER', lambda ex, M=M: (mkgv(ex), ([lift(enc_in)], {'M': M}))[1], {}, lambda M=M: __import__('opticomlib.ppm', fromlist=['x']).PPM_ENCODER(enc_in, M).data)
    return cases


def audit_cpython():
    K = Ctx('AUDIT', 'quick')
    from .frontend import Repo
    res = {'compared': 0, 'agree': 0, 'skipped': [], 'disagree': []}
    for label, qual, a, kw, nat in cpython_cases():
        try:
            from contracts.common import fn as _fn
            fnv = _fn(K, qual)
        except Exception as e:
            res['skipped'].append([label, f'not found: {e}'])
            continue

        def run(ex):
            if callable(a):
                aa, kk = a(ex)
                return ex.call_fn(fnv, list(aa), dict(kk))
            return ex.call_fn(fnv, list(a), dict(kw))
        try:
            ps = K.paths(run, [], allow_unsupported=True)
        except Exception as e:
            res['skipped'].append([label, f'executor: {type(e).__name__}: {e}'])
            continue
        ps = [p for p in ps]
        if len(ps) != 1 or ps[0].kind == 'unsupported':
            res['skipped'].append([label, f'{len(ps)} paths / {ps[0].kind if ps else None}: {str(ps[0].value)[:120] if ps else ""}'])
            continue
        p = ps[0]

        def g():
            load_native()
            try:
                return ('ret', canon(nat()))
            except Exception as e:
                return ('raise', type(e).__name__)
        st, out = run_native(g, 60)
        if st != 'ok':
            res['skipped'].append([label, f'native: {st}'])
            continue
        try:
            mine = ('raise', p.value) if p.kind == 'raise' else ('ret', canon(to_py(p.value)))
        except numeval.Bad as e:
            res['skipped'].append([label, f'result not concrete: {e}'])
            continue
        res['compared'] += 1
        ok = mine[0] == out[0] and (same(mine[1], out[1]) if mine[0] == 'ret' else mine[1] == out[1])
        if ok:
            res['agree'] += 1
        else:
            res['disagree'].append([label, str(mine)[:200], str(out)[:200]])
    return res


# ------------------------------------------------------------------------------------------------ 3. scan
def scan():
    out = {'assumed_external_contracts': sorted(extern.EXT.keys()), 'uninterpreted_special_functions': sorted(UF.keys()), 'contract_overrides': [], 'assume_calls': [], 'opaque_operators': ['fft', 'ifft', 'L (sosfiltfilt per (order, cutoff, fs, type, norm))']}
    for f in sorted(glob.glob(os.path.join(HERE, 'contracts', '*.py'))):
        src = open(f).read()
        for i, line in enumerate(src.split('\n'), 1):
            s = line.strip()
            if 'ex.overrides[' in s and '=' in s:
                out['contract_overrides'].append(f'{os.path.basename(f)}:{i}: {s[:160]}')
            if '.assume(' in s:
                out['assume_calls'].append(f'{os.path.basename(f)}:{i}: {s[:160]}')
    return out


def main():
    t = time.time()
    ax = audit_axioms()
    print(f"axioms: {ax['instances_evaluated']} lemma instances evaluated with the real functions, {ax['false_instances']} false")
    for e in ax['examples']:
        print('   FALSE INSTANCE:', e)
    cp = audit_cpython()
    print(f"cpython cross-check: {cp['agree']}/{cp['compared']} executor results agree with CPython ({len(cp['skipped'])} not comparable)")
    for d in cp['disagree']:
        print('   DISAGREE:', d)
    for s in cp['skipped'][:40]:
        print('   skipped:', s)
    sc = scan()
    print(f"scan: {len(sc['assumed_external_contracts'])} assumed external contracts, {len(sc['uninterpreted_special_functions'])} uninterpreted special functions, "
          f"{len(sc['contract_overrides'])} contract-supplied stand-ins, {len(sc['assume_calls'])} assume() sites in contracts")
    os.makedirs(os.path.join(HERE, 'evidence'), exist_ok=True)
    json.dump({'axioms': ax, 'cpython': cp, 'scan': sc, 'wall_s': round(time.time() - t, 1)}, open(os.path.join(HERE, 'evidence', 'ASSUMPTIONS.json'), 'w'), indent=1, default=str)
    return 0 if ax['false_instances'] == 0 and not cp['disagree'] else 1


if __name__ == '__main__':
    sys.exit(main())
