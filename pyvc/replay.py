"""./vcheck replay <file>: re-run the obligation recorded in a replay file against the current tree."""
import json, sys, os
from pyvc import runner


def main():
    p = sys.argv[1]
    rep = json.load(open(p))
    print(f"replaying {rep['obligation']} of {rep['property']} (recorded status: {rep['status']})")
    d = rep.get('detail', {})
    if 'replay' in d:
        print('recorded witness:', json.dumps(d['replay'], default=str)[:2000])
    clause = rep['obligation']
    # clause name = up to the first '.' after the property's clause id, e.g. C04.loop[7]
    parts = clause.split('.')
    only = '.'.join(parts[:2])
    return runner.main([rep['property'], '--only', only, '--no-evidence', '-v'])


if __name__ == '__main__':
    sys.exit(main())
