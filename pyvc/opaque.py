"""Uninterpreted array operators (fft, ifft, the zero-phase Bessel filter L[n,W,fs], ...) as first-class applications.

An application  op[params](x)  of a 1-D array is a fresh array of uninterpreted elements.  Applications are identified up to
*provable extensional equality* of their inputs (congruence), and  op^-1(op(x))  is rewritten to x for declared inverse pairs.
Further axioms (linearity, Parseval) are emitted on request as facts about registered applications; each emission is
guarded by a solver check of its premise, so only instances of the axiom schemas listed in DESIGN.md are ever used.
Multi-row inputs are handled row by row (the operators act along the last axis), which is the row-wise independence axiom.
"""
from fractions import Fraction
import z3
from .values import *
from . import axioms
from .arrays import lift, copy as arr_copy

INVERSE = {'fft': 'ifft', 'ifft': 'fft'}
COMPLEX_LINEAR = {'fft', 'ifft'}          # op(c*x) = c*op(x) for complex c
REAL_LINEAR = {'L'}                       # real-linear, acts on real and imaginary parts separately


class App:
    def __init__(self, op, params, inp, out, n):
        self.op, self.params, self.inp, self.out, self.n = op, params, inp, out, n


_ENTAILS_MEMO = {}


def entails_ax(ex, c, extra=(), tri=False, fast=False):
    """pc |= c, with the special-function axioms instantiated on the terms of c.
    tri=False: python bool (unknown counts as False).  tri=True: True / False / None (unknown).
    Results are memoised per (hypotheses, goal): paths are explored by re-execution, so the queries of a common prefix recur with
    structurally identical terms (z3 hash-conses terms: equal ids = equal terms while the terms are alive; the memo keeps them alive)."""
    if isinstance(c, bool):
        return c
    c = z3.simplify(c)
    if z3.is_true(c):
        return True
    if z3.is_false(c):
        return False
    differs = bool(fast)            # the caller's numeric sampling says the two sides differ
    fast = bool(fast) and bool(ex.__dict__.get('fast_ident'))       # short budgets only where the contract opted in (C08)
    hy = [h for h in ex.pc if isz(h)]
    key = (tuple(h.get_id() for h in hy), c.get_id(), tuple(e.get_id() for e in extra if isz(e)), bool(fast))
    hit = _ENTAILS_MEMO.get(key)
    if hit is not None:
        r = hit[0]
    else:
        r = _entails_ax(ex, c, extra, fast)
        _ENTAILS_MEMO[key] = (r, hy, c, list(extra))
    if r is None:
        if differs:
            # undecided by the solver, but sampled interpretations (real special functions, simple hypotheses) make the two sides
            # differ: the negative answer is taken as such and the path is not marked
            return False
        # undecided internal query: whatever is built on the negative answer must not be reported as a violation
        mark_incomplete(ex)
        return None if tri else False
    return r


def _entails_ax(ex, c, extra=(), fast=False):
    # fast: the caller has numeric evidence that the claim is false; a short budget (the verdict is still the solver's: unknown stays unknown)
    neg = z3.Not(c)
    lem = axioms.instantiate([neg] + list(extra))
    hyps = [h for h in ex.pc if isz(h)]
    # 0. only the quantifier-free hypotheses connected to the goal (a subset of the hypotheses: 'unsat' is conclusive)
    try:
        from . import numeval
        h0 = numeval.relevant_hyps([h for h in hyps if not z3.is_quantifier(h)], [neg] + list(extra))
        if len(h0) < len(hyps):
            terms0 = axioms.abstract_all(h0 + list(extra) + lem + [neg])
            s = z3.Solver()
            s.set('timeout', min(ex.timeout_ms, 1000 if fast else 3000))
            s.set('arith.solver', 2)
            s.add(*terms0)
            ex.solver_calls += 1
            if s.check() == z3.unsat:
                return True
    except z3.Z3Exception:
        pass
    # 1. pure-arithmetic abstraction (all function applications replaced by constants): complete for real arithmetic, fast
    try:
        terms, amap = axioms.abstract_all(hyps + list(extra) + lem + [neg], want_map=True)
        s = z3.Solver()
        s.set('timeout', ex.timeout_ms)
        s.add(*terms)
        ex.solver_calls += 1
        s.set('timeout', min(ex.timeout_ms, 1500 if fast else 3000))
        s.set('arith.solver', 2)          # legacy arithmetic: decisive on these non-linear real queries
        r0 = s.check()
        if r0 == z3.unsat:
            return True
        if r0 == z3.sat and axioms.model_respects_congruence(s.model(), amap):
            return False          # the arithmetic model extends to a model with functions: genuinely not entailed
    except z3.Z3Exception:
        pass
    # 2. the query itself (keeps congruence); a model here is a genuine refutation
    s = z3.Solver()
    s.set('timeout', ex.timeout_ms)
    s.add(*ex.pc)
    s.add(*extra)
    s.add(*lem)
    s.add(neg)
    ex.solver_calls += 1
    s.set('timeout', min(ex.timeout_ms, 1500 if fast else 3000))
    s.set('arith.solver', 2)
    r = s.check()
    if r == z3.unsat:
        return True
    if r == z3.sat:
        return False
    from .vc import run_external
    r1, _, _ = run_external(s.to_smt2(), 2 if fast else 5)
    if r1 == 'unsat':
        return True
    if r1 == 'sat':
        return False
    return None


def params_equal(ex, p, q):
    if len(p) != len(q):
        return False
    for a, b in zip(p, q):
        if isinstance(a, str) or isinstance(b, str) or a is None or b is None:
            if a != b:
                return False
            continue
        e = s_eq(a, b)
        if isinstance(e, bool):
            if not e:
                return False
        elif not ex.entails(e):
            return False
    return True


def arrays_equal(ex, a, b):
    """provable extensional equality of two 1-D arrays.  When the solver cannot decide, the arrays are treated as different and
    the path is marked: a later counter-model on this path is then not reported as a violation unless replayed."""
    if a.ndim != 1 or b.ndim != 1:
        return False
    if not ex.entails(tobool(s_eq(a.shape[0], b.shape[0]))):
        return False
    j = ex.newvar('jx', 'int')
    try:
        va, vb = a.elem((j,)), b.elem((j,))
        e = s_eq(va, vb)
    except (Unsupported, SymRaise):
        return False
    if isinstance(e, bool):
        return e
    # structural filter: element terms built from different sets of array element functions (input samples, outputs of other
    # operator applications, random draws) are treated as different arrays.  This can only lose an identification (the dependent
    # obligation then fails to discharge and is reported undecided/violated-without-input), never create a wrong proof.
    if _array_symbols(va) != _array_symbols(vb):
        return False
    # cheap decisive filter: a concrete interpretation (real special functions) satisfying the path condition under which the
    # elements differ clearly shows that the arrays are not provably equal
    try:
        from . import numeval
        comps = lambda v: [toreal(v.re), toreal(v.im)] if isinstance(v, Cx) else [toreal(v)]
        ca, cb = comps(va if isinstance(va, Cx) or not isinstance(vb, Cx) else Cx(va, 0)), comps(vb if isinstance(vb, Cx) or not isinstance(va, Cx) else Cx(vb, 0))
        if numeval.clearly_different(ex.pc, ca, cb, guard=z3.And(j >= 0, j < tonum(a.shape[0]))):
            return False
    except (Unsupported, z3.Z3Exception):
        pass
    fast = False
    try:
        fast = numeval.likely_different(ex.pc, ca, cb, guard=z3.And(j >= 0, j < tonum(a.shape[0])))
    except (Unsupported, z3.Z3Exception, NameError):
        pass
    r = entails_ax(ex, z3.Implies(z3.And(j >= 0, j < tonum(a.shape[0])), e), tri=True, fast=fast)
    if r is None:
        mark_incomplete(ex)
        return False
    return r


INCOMPLETE = z3.Bool('identification_incomplete!')


def mark_incomplete(ex):
    if not ex.__dict__.get('_incomplete'):
        ex._incomplete = True
        ex.assume(INCOMPLETE)


def _array_symbols(v):
    terms = [t for t in ((v.re, v.im) if isinstance(v, Cx) else (v,)) if isz(t)]
    seen, out, st = set(), set(), list(terms)
    while st:
        x = st.pop()
        if x.get_id() in seen:
            continue
        seen.add(x.get_id())
        if z3.is_app(x) and x.num_args() > 0 and x.decl().kind() == z3.Z3_OP_UNINTERPRETED:
            if x.decl().name() in ('cos', 'sin'):
                continue          # phase factors: what feeds a phase may cancel (unit modulus), so it is not part of the fingerprint
            if x.decl().name() not in UF:
                out.add(x.decl().name())
        st.extend(x.children())
    return out


def _apps(ex):
    return ex.__dict__.setdefault('apps', [])


def apply_1d(ex, op, params, x):
    """x: 1-D Arr.  Returns a fresh 1-D Arr."""
    x = lift(x)
    if op in REAL_LINEAR and x.kind == 'complex':
        xe = x.elem
        re = apply_1d(ex, op, params, Arr(x.shape, lambda idx: s_real(xe(idx)), 'float'))
        im = apply_1d(ex, op, params, Arr(x.shape, lambda idx: s_imag(xe(idx)), 'float'))
        return Arr(x.shape, lambda idx: Cx(re.elem(idx), im.elem(idx)), 'complex')
    apps = _apps(ex)
    inv = INVERSE.get(op)
    snap = Arr(x.shape, x.elem, x.kind)
    if inv:
        for a in apps:
            if a.op == inv and params_equal(ex, a.params, params) and arrays_equal(ex, snap, a.out):
                return _as_kind(a.inp, 'complex' if op in COMPLEX_LINEAR else a.inp.kind)
    for a in apps:
        if a.op == op and params_equal(ex, a.params, params) and arrays_equal(ex, snap, a.inp):
            return Arr(a.out.shape, a.out.elem, a.out.kind)
    k = next(ex.fresh)
    n = x.shape[0]
    if op in COMPLEX_LINEAR:
        fr = z3.Function(f'{op}_re!{k}', z3.IntSort(), z3.RealSort())
        fi = z3.Function(f'{op}_im!{k}', z3.IntSort(), z3.RealSort())
        out = Arr([n], lambda idx: Cx(fr(tonum(idx[0])), fi(tonum(idx[0]))), 'complex')
    else:
        f = z3.Function(f'{op}!{k}', z3.IntSort(), z3.RealSort())
        out = Arr([n], lambda idx: f(tonum(idx[0])), 'float')
    app = App(op, tuple(params), snap, Arr(out.shape, out.elem, out.kind), n)
    apps.append(app)
    return out


def _as_kind(a, kind):
    e = a.elem
    if a.kind == kind:
        return Arr(a.shape, e, kind)
    return Arr(a.shape, lambda idx: s_cast(e(idx), kind), kind)


def apply_last_axis(ex, op, params, x):
    """apply along the last axis of a 1-D or (rows, N) array, row by row (rows must be concrete)"""
    x = lift(x)
    if x.ndim == 1:
        return apply_1d(ex, op, params, x)
    if x.ndim == 2 and isinstance(conc(x.shape[0]), int):
        rows = []
        xe = x.elem
        for r in range(conc(x.shape[0])):
            rows.append(apply_1d(ex, op, params, Arr([x.shape[1]], lambda idx, r=r: xe((r, idx[0])), x.kind)))
        kind = rows[0].kind

        def elem(idx):
            r = conc(idx[0])
            if isinstance(r, int):
                return rows[r].elem((idx[1],))
            res = rows[-1].elem((idx[1],))
            for q in range(len(rows) - 2, -1, -1):
                res = s_ite(toz(r) == q, rows[q].elem((idx[1],)), res)
            return res
        return Arr([x.shape[0], x.shape[1]], elem, kind)
    raise Unsupported(f'{op} along the last axis of an array with {x.ndim} axes')


def find_app(ex, out_arr):
    """the registered application whose output is (provably) this array"""
    for a in _apps(ex):
        if arrays_equal(ex, Arr(out_arr.shape, out_arr.elem, out_arr.kind), a.out):
            return a
    return None


def sumsq(ex, a):
    """sum_i |a[i]|^2 as a (canonicalised) reduction term"""
    from . import reduce
    ae = a.elem
    body = Arr(a.shape, lambda idx: _abs2(ae(idx)), 'float')
    return reduce.reduce_(ex, 'sum', body, 0)


def _abs2(v):
    if isinstance(v, Cx):
        return s_add(s_mul(v.re, v.re), s_mul(v.im, v.im))
    return s_mul(v, v)


def parseval_facts(ex, apps=None):
    """Parseval for the given (default: every registered) fft / ifft applications:  sum|fft x|^2 = n sum|x|^2,  n sum|ifft y|^2 = sum|y|^2"""
    out = []
    for a in list(_apps(ex) if apps is None else apps):
        if a.op == 'fft':
            out.append(toreal(sumsq(ex, a.out)) == toreal(a.n) * toreal(sumsq(ex, a.inp)))
        elif a.op == 'ifft':
            out.append(toreal(a.n) * toreal(sumsq(ex, a.out)) == toreal(sumsq(ex, a.inp)))
    return out


def linear_fact(ex, app_sum, terms):
    """linearity instance: if input(app_sum) = sum_k c_k * input(app_k) element-wise (checked), then
    output(app_sum)[i] = sum_k c_k * output(app_k)[i]; returned as a function i -> z3 Bool.
    terms: list of (coefficient scalar, App).  Coefficients must be real for REAL_LINEAR operators."""
    for c, a in terms:
        if a.op != app_sum.op or not params_equal(ex, a.params, app_sum.params):
            raise Unsupported('linearity instance over different operators')
        if app_sum.op in REAL_LINEAR and isinstance(c, Cx):
            raise Unsupported('complex coefficient for a real-linear operator')
    j = ex.newvar('jl', 'int')
    comb = None
    for c, a in terms:
        t = s_mul(c, a.inp.elem((j,)))
        comb = t if comb is None else s_add(comb, t)
    prem = s_eq(app_sum.inp.elem((j,)), comb)
    if not (prem is True or entails_ax(ex, z3.Implies(z3.And(j >= 0, j < tonum(app_sum.n)), prem))):
        return None

    def fact(i):
        comb = None
        for c, a in terms:
            t = s_mul(c, a.out.elem((i,)))
            comb = t if comb is None else s_add(comb, t)
        e = s_eq(app_sum.out.elem((i,)), comb)
        return z3.BoolVal(e) if isinstance(e, bool) else e
    return fact


def chain_apps(ex, out_arr, in_arr):
    """the ifft application producing out_arr and the fft application consuming in_arr (for energy arguments)"""
    a_out = find_app(ex, out_arr)
    snap = Arr(in_arr.shape, in_arr.elem, in_arr.kind)
    a_in = None
    for a in _apps(ex):
        if a.op == 'fft' and arrays_equal(ex, a.inp, snap):
            a_in = a
            break
    return a_out, a_in
