"""ndarray semantics over index functions: broadcasting, basic/advanced indexing, stores."""
from fractions import Fraction
import numpy as np
import z3
from .values import *
from . import values as V


class MaskSel(Arr):
    """x[mask]: selection of the elements of `base` where `mask` holds.  Element-wise algebra is carried on the
    base index space so that  H[mask] = f(x[mask])  can be resolved exactly."""
    def __init__(self, mask, base_elem, kind, count):
        super().__init__([count], self._no_elem, kind)
        self.mask = mask
        self.base_elem = base_elem

    def _no_elem(self, idx):
        raise Unsupported('element of a boolean-mask selection by rank')


def prod(shape):
    r = 1
    for d in shape:
        r = s_mul(r, d)
    return r


def _np_kind(a):
    k = a.dtype.kind
    return {'b': 'bool', 'i': 'int', 'u': 'int', 'f': 'float', 'c': 'complex'}.get(k) or _raise(Unsupported(f'dtype {a.dtype}'))


def _raise(e):
    raise e


def lift(a):
    """concrete numpy array -> Arr (fresh provenance: a concrete array never aliases a symbolic input)"""
    if isinstance(a, Arr):
        return a
    if not isinstance(a, np.ndarray):
        raise Unsupported(f'lift {a!r}')
    kind = _np_kind(a)
    data = a

    def conv(x):
        if kind == 'bool':
            return bool(x)
        if kind == 'int':
            return int(x)
        if kind == 'float':
            return frac(float(x))
        return Cx(frac(float(x.real)), frac(float(x.imag)))

    def elem(idx):
        if all(isinstance(conc(i), int) for i in idx):
            try:
                return conv(data[tuple(int(conc(i)) for i in idx)])
            except IndexError:
                raise SymRaise('IndexError')
        if data.size > 256:
            raise Unsupported('symbolic index into a large concrete array')
        flat = [(ix, conv(data[ix])) for ix in np.ndindex(*data.shape)]
        res = flat[-1][1]
        for ix, val in reversed(flat[:-1]):
            c = z3.And(*[toz(i) == k for i, k in zip(idx, ix)])
            res = s_ite(c, val, res)
        return res
    out = Arr(list(a.shape), elem, kind, np_dtype=str(a.dtype))
    out.concrete = a
    return out


def from_seq(ex, seq, kind=None):
    """np.array(list/tuple) -> fresh Arr"""
    if isinstance(seq, (Arr, np.ndarray)):
        return copy(lift(seq))
    seq = list(seq)
    if not seq:
        return Arr([0], lambda idx: _raise(SymRaise('IndexError')), kind or 'float')
    if all(isinstance(x, (Arr, np.ndarray)) for x in seq):
        rows = [lift(x) for x in seq]
        sh = rows[0].shape
        for r in rows[1:]:
            if len(r.shape) != len(sh) or not all(ex.branch(tobool(s_eq(a, b))) for a, b in zip(r.shape, sh)):
                raise Unsupported('ragged array')
        k = rows[0].kind
        for r in rows:
            k = kmax(k, r.kind)

        def elem(idx, rows=rows):
            i0 = conc(idx[0])
            if isinstance(i0, int):
                return rows[i0].elem(tuple(idx[1:]))
            res = rows[-1].elem(tuple(idx[1:]))
            for j in range(len(rows) - 2, -1, -1):
                res = s_ite(toz(i0) == j, rows[j].elem(tuple(idx[1:])), res)
            return res
        return Arr([len(rows)] + list(sh), elem, kind or k)
    if all(isinstance(x, (list, tuple)) for x in seq):
        return from_seq(ex, [from_seq(ex, x) for x in seq], kind)
    if not all(is_scalar(x) for x in seq):
        raise Unsupported(f'np.array of {seq!r}')
    k = 'bool'
    for x in seq:
        k = kmax(k, scalar_kind(x))
    vals = [s_cast(x, k) for x in seq]

    def elem(idx, vals=vals):
        i0 = conc(idx[0])
        if isinstance(i0, int):
            return vals[i0]
        res = vals[-1]
        for j in range(len(vals) - 2, -1, -1):
            res = s_ite(toz(i0) == j, vals[j], res)
        return res
    return Arr([len(vals)], elem, kind or k)


def scalar0(v):
    """0-d array holding a scalar"""
    return Arr([], lambda idx, v=v: v, scalar_kind(v))


def copy(a, kind=None):
    a = lift(a)
    e = a.elem
    if kind is not None and kind != a.kind:
        return Arr(a.shape, lambda idx: s_cast(e(idx), kind), kind)
    out = Arr(a.shape, e, a.kind, np_dtype=a.np_dtype)
    if isinstance(a, MaskSel):
        raise Unsupported('copy of a mask selection')
    return out


# ------------------------------------------------------------------ broadcasting
def broadcast(ex, shapes):
    """returns (result shape, per-operand list of per-axis 'is broadcast' flags) or raises ValueError"""
    nd = max(len(s) for s in shapes)
    padded = [[None] * (nd - len(s)) + list(s) for s in shapes]
    res = []
    flags = [[] for _ in shapes]
    for ax in range(nd):
        dims = [p[ax] for p in padded]
        chosen = None
        for k, d in enumerate(dims):
            if d is None:
                flags[k].append(True)
                continue
            if chosen is None:
                chosen = d
                chosen_k = k
                flags[k].append(False)
                continue
            if ex.branch(tobool(s_eq(d, chosen))):
                flags[k].append(False)
            elif ex.branch(tobool(s_eq(d, 1))):
                flags[k].append(True)
            elif ex.branch(tobool(s_eq(chosen, 1))):
                # everything chosen so far was broadcast along this axis
                for kk in range(k):
                    if padded[kk][ax] is not None:
                        flags[kk][ax] = True
                chosen = d
                flags[k].append(False)
            else:
                raise SymRaise('ValueError', 'operands could not be broadcast together')
        res.append(chosen)
    return res, flags


def _opidx(idx, shape, flags, nd):
    off = nd - len(shape)
    return tuple(0 if flags[off + j] else idx[off + j] for j in range(len(shape)))


def elementwise(ex, f, operands, kind):
    """apply scalar function f over broadcast operands (Arr or scalars)"""
    arrs = [(i, lift(o)) for i, o in enumerate(operands) if isinstance(o, (Arr, np.ndarray))]
    sels = [a for _, a in arrs if isinstance(a, MaskSel)]
    if sels:
        m = sels[0]
        for _, a in arrs:
            if isinstance(a, MaskSel):
                if a.mask is not m.mask:
                    raise Unsupported('mask selections with different masks')
            elif a.ndim != 0:
                raise Unsupported('mask selection combined with a full array')

        def belem(idx):
            vals = [o.base_elem(idx) if isinstance(o, MaskSel) else (o.at() if isinstance(o, Arr) else o) for o in [lift(o) if isinstance(o, np.ndarray) else o for o in operands]]
            return f(*vals)
        return MaskSel(m.mask, belem, kind, m.shape[0])
    shape, flags = broadcast(ex, [a.shape for _, a in arrs])
    nd = len(shape)
    fl = {i: flags[k] for k, (i, _) in enumerate(arrs)}
    ops = [lift(o) if isinstance(o, np.ndarray) else o for o in operands]

    def elem(idx):
        vals = []
        for i, o in enumerate(ops):
            if isinstance(o, Arr):
                vals.append(o.elem(_opidx(idx, o.shape, fl[i], nd)))
            else:
                vals.append(o)
        return f(*vals)
    if nd == 0:
        return elem(())          # numpy returns a scalar, not a 0-d array, for operations on 0-d operands
    return Arr(shape, elem, kind)


def _okind(o):
    if isinstance(o, np.ndarray):
        return _np_kind(o)
    if isinstance(o, Arr):
        return o.kind
    return scalar_kind(o)


_NP_OPS = {'Add': np.add, 'Sub': np.subtract, 'Mult': np.multiply, 'Pow': np.power, 'FloorDiv': np.floor_divide, 'Mod': np.mod,
           'BitAnd': np.bitwise_and, 'BitOr': np.bitwise_or, 'BitXor': np.bitwise_xor, 'LShift': np.left_shift, 'RShift': np.right_shift}


def _concrete_int(x):
    """concrete integer/bool ndarray (or python int) behind a value, else None"""
    if isinstance(x, (bool, int, np.integer)) and not isinstance(x, Fraction):
        return x
    c = x if isinstance(x, np.ndarray) else getattr(x, 'concrete', None)
    if isinstance(c, np.ndarray) and c.dtype.kind in 'biu' and getattr(x, 'elem_unmodified', True):
        return c
    return None


def binop(ex, on, l, r):
    # concrete integer arrays: evaluate with numpy itself (exact, including fixed-width wrap-around of small integer dtypes)
    cl, cr = _concrete_int(l), _concrete_int(r)
    if cl is not None and cr is not None and on in _NP_OPS and (isinstance(cl, np.ndarray) or isinstance(cr, np.ndarray)):
        try:
            with np.errstate(all='ignore'):
                res = _NP_OPS[on](cl, cr)
            if isinstance(res, np.ndarray) and res.dtype.kind in 'biu':
                out = lift(res)
                return _tag(out, on, l, r)
        except (TypeError, ValueError):
            pass
    kl, kr = _okind(l), _okind(r)
    # python scalars do not upcast arrays within the same kind class; across classes they do
    k = kmax(kl, kr)
    if on == 'Div':
        k = kmax(k, 'float')
    if on == 'Pow' and not isinstance(r, (Arr, np.ndarray)) and isinstance(conc(r), Fraction):
        k = kmax(k, 'float')
    if on in ('Add', 'Sub', 'Mult') and k == 'bool':
        k = 'bool' if on != 'Sub' else _raise(SymRaise('TypeError', 'numpy boolean subtract'))
    if on in ('BitAnd', 'BitOr', 'BitXor'):
        if k != 'bool':
            raise Unsupported('bitwise operation on integer arrays')
        f = lambda a, b: s_bitop(on, tobool(a) if not isinstance(a, bool) else a, tobool(b) if not isinstance(b, bool) else b)
        return _tag(elementwise(ex, f, [l, r], 'bool'), on, l, r)
    if k == 'bool' and on in ('Add', 'Mult'):
        f = (lambda a, b: s_or(tobool(a), tobool(b))) if on == 'Add' else (lambda a, b: s_and(tobool(a), tobool(b)))
        return elementwise(ex, f, [l, r], 'bool')
    f = lambda a, b: ex.scalar_binop(on, a, b)
    out = elementwise(ex, f, [l, r], k)
    if k == 'int' and isinstance(out, Arr) and on in ('Add', 'Sub', 'Mult', 'Pow', 'LShift'):
        _small_int_guard(ex, on, l, r, out)
    return _tag(out, on, l, r)


_SMALL_INT = {'uint8': (0, 255), 'int8': (-128, 127), 'uint16': (0, 65535), 'int16': (-32768, 32767), 'uint32': (0, 2 ** 32 - 1), 'int32': (-2 ** 31, 2 ** 31 - 1)}


def _small_int_guard(ex, on, l, r, out):
    """numpy keeps a small integer dtype when both operands have it (or one is a python int that fits): the result then wraps
    around silently.  Integers are mathematical in this executor, so the operation is only accepted when the mathematical result
    provably fits the dtype; otherwise the path is outside the supported subset (undecided), never silently 'proved'."""
    dl = l.np_dtype if isinstance(l, Arr) else (str(l.dtype) if isinstance(l, np.ndarray) else None)
    dr = r.np_dtype if isinstance(r, Arr) else (str(r.dtype) if isinstance(r, np.ndarray) else None)
    la, ra = isinstance(l, (Arr, np.ndarray)), isinstance(r, (Arr, np.ndarray))
    res = None
    if la and ra:
        if dl in _SMALL_INT and dr in _SMALL_INT:
            res = str(np.promote_types(dl, dr))
    else:
        d, sc = (dl, r) if la else (dr, l)
        if d in _SMALL_INT and isinstance(conc(sc), (int, np.integer)) and not isinstance(conc(sc), bool):
            lo, hi = _SMALL_INT[d]
            v = int(conc(sc))
            if lo <= v <= hi:
                res = d                       # value-based casting: the array's dtype is kept
    if res not in _SMALL_INT:
        return
    lo, hi = _SMALL_INT[res]
    idx = tuple(ex.newvar('jw', 'int') for _ in range(out.ndim))
    guard = z3.And(*[z3.And(i >= 0, i < tonum(n)) for i, n in zip(idx, out.shape)]) if idx else z3.BoolVal(True)
    v = tonum(out.elem(idx))
    if not ex.entails(z3.Implies(guard, z3.And(v >= lo, v <= hi))):
        raise Unsupported(f'possible {res} wrap-around in array {on} (fixed-width integers are not modelled; the mathematical result may leave [{lo}, {hi}])')
    out.np_dtype = res


def _tag(res, on, l, r):
    """structural tags used to invert scatter indices:  arange(n)*M + d"""
    ml = getattr(l, 'meta', None)
    mr = getattr(r, 'meta', None)
    if on == 'Mult':
        for m, other in ((ml, r), (mr, l)):
            if m and 'arange' in m and not isinstance(other, (Arr, np.ndarray)):
                start, step = m['arange']
                res.meta = {'arange': (s_mul(start, other), s_mul(step, other))}
    if on == 'Add':
        for m, other in ((ml, r), (mr, l)):
            if m and 'arange' in m:
                start, step = m['arange']
                if isinstance(other, (Arr, np.ndarray)):
                    res.meta = {'arange_plus': (start, step, lift(other))}
                else:
                    res.meta = {'arange': (s_add(start, other), step)}
    return res


def cmpop(ex, on, l, r):
    if isinstance(l, (list, tuple)):
        l = from_seq(ex, l)
    if isinstance(r, (list, tuple)):
        r = from_seq(ex, r)
    if r is None or l is None:
        raise Unsupported('array compared with None')
    return elementwise(ex, lambda a, b: s_cmp(on, a, b), [l, r], 'bool')


def unop(ex, op, a):
    a = lift(a)
    on = type(op).__name__
    if on == 'USub':
        return elementwise(ex, s_neg, [a], a.kind if a.kind != 'bool' else _raise(SymRaise('TypeError')))
    if on == 'UAdd':
        return elementwise(ex, lambda x: x, [a], a.kind)
    if on == 'Invert':
        if a.kind != 'bool':
            raise Unsupported('~ on a non-boolean array')
        return elementwise(ex, lambda x: s_not(tobool(x)), [a], 'bool')
    raise Unsupported(on)


# ------------------------------------------------------------------ indexing
def norm_bound(v, n, default):
    """CPython slice bound normalisation for step > 0"""
    if v is None:
        return default
    v, n = conc(v), conc(n)
    if isinstance(v, int) and isinstance(n, int):
        if v < 0:
            v += n
            return max(v, 0)
        return min(v, n)
    vz, nz = toz(v), toz(n)
    if not z3.is_int(vz):
        raise SymRaise('TypeError', 'slice indices must be integers')
    return z3.If(vz < 0, z3.If(vz + nz < 0, 0, vz + nz), z3.If(vz > nz, nz, vz))


def slice_params(ex, sl, n):
    """-> (lo, step, length) for a slice with positive step, or reversed full slice"""
    step = 1 if sl.step is None else conc(sl.step)
    if isinstance(step, int) and step < 0:
        if step == -1 and sl.hi is None:
            # a[lo::-1]  -> elements lo, lo-1, ..., 0   (lo defaults to n-1)
            if sl.lo is None:
                return s_sub(n, 1), -1, n
            lo = conc(sl.lo)
            if isinstance(lo, int) and lo < 0:
                raise Unsupported('negative start with negative step')
            # start is clamped to n-1
            if isinstance(lo, int) and isinstance(conc(n), int):
                lo = min(lo, conc(n) - 1)
                return lo, -1, lo + 1
            lz, nz = toz(lo), toz(n)
            if not ex.entails(lz >= 0):
                raise Unsupported('negative start with negative step')
            lo = z3.If(lz > nz - 1, nz - 1, lz)
            return lo, -1, lo + 1
        raise Unsupported('negative slice step')
    if isz(step):
        if not ex.entails(step > 0):
            raise Unsupported('slice step not known to be positive')
    elif step == 0:
        raise SymRaise('ValueError', 'slice step cannot be zero')
    lo = norm_bound(sl.lo, n, 0)
    hi = norm_bound(sl.hi, n, n)
    lo, hi = conc(lo), conc(hi)
    if isinstance(lo, int) and isinstance(hi, int) and isinstance(step, int):
        ln = max(0, -(-(hi - lo) // step))
    else:
        d = tonum(s_sub(hi, lo))
        stz = tonum(step)
        ln = z3.If(d > 0, (d + stz - 1) / stz, 0)
        ln = z3.simplify(ln)
        if z3.is_int_value(ln):
            ln = ln.as_long()
    return lo, step, ln


def norm_index(ex, i, n):
    """integer index with python negative-index semantics and bounds check"""
    i = conc(i)
    if isinstance(i, bool):
        i = int(i)
    if isinstance(i, BVInt):
        i = z3.BV2Int(i.bv, True)
    if isinstance(i, int) and isinstance(conc(n), int):
        n = conc(n)
        if not -n <= i < n:
            raise SymRaise('IndexError')
        return i + n if i < 0 else i
    iz, nz = tonum(i), tonum(n)
    if not z3.is_int(iz):
        raise SymRaise('IndexError', 'non-integer index')
    if not ex.branch(z3.And(iz >= -nz, iz < nz)):
        raise SymRaise('IndexError')
    if isinstance(i, int):
        return i if i >= 0 else nz + i
    if ex.entails(iz >= 0):
        return iz
    return z3.If(iz < 0, iz + nz, iz)


def _conc_index(c):
    from .interp import SliceV
    if isinstance(c, SliceV):
        parts = [conc(x) for x in (c.lo, c.hi, c.step)]
        if all(p is None or isinstance(p, int) for p in parts):
            return slice(*parts)
        return None
    c = conc(c)
    return c if isinstance(c, int) and not isinstance(c, bool) else None


def getitem(ex, a, idx):
    from .interp import SliceV, NEWAXIS, Ext
    a = lift(a)
    cc = getattr(a, 'concrete', None)
    if isinstance(cc, np.ndarray) and getattr(a, 'elem_unmodified', True) and not isinstance(a, MaskSel):
        it = idx if isinstance(idx, tuple) else (idx,)
        ci = [_conc_index(c) for c in it]
        if all(c is not None for c in ci):
            try:
                r = cc[tuple(ci)]
            except IndexError:
                raise SymRaise('IndexError')
            if isinstance(r, np.ndarray):
                out = lift(r)
                out.prov, out.view = a.prov, True
                if getattr(a, 'meta', None) and 'arange' in a.meta and len(ci) == 1 and isinstance(ci[0], slice) and ci[0] == slice(None, None, None):
                    out.meta = a.meta
                return out
    if isinstance(a, MaskSel):
        raise Unsupported('indexing a mask selection')
    if not isinstance(idx, tuple):
        idx = (idx,)
    # advanced indexing with a single array
    if len(idx) == 1 and isinstance(idx[0], (Arr, np.ndarray, list)):
        ia = idx[0]
        ia = from_seq(ex, ia) if isinstance(ia, list) else lift(ia)
        if ia.kind == 'bool':
            if ia.ndim != a.ndim or not all(ex.entails(tobool(s_eq(x, y))) for x, y in zip(ia.shape, a.shape)):
                raise SymRaise('IndexError', 'boolean index shape mismatch')
            cnt = ex.newvar('count', 'int')
            ex.assume(z3.And(cnt >= 0, cnt <= tonum(prod(a.shape))))
            ms = MaskSel(ia, a.elem, a.kind, cnt)
            return ms
        if ia.kind != 'int':
            raise SymRaise('IndexError', 'arrays used as indices must be of integer (or boolean) type')
        n0 = a.shape[0]
        ael = a.elem

        def elem(j, ia=ia, ael=ael):
            k = ia.elem(tuple(j[:ia.ndim]))
            ex.defined(z3.And(tonum(k) >= -tonum(n0), tonum(k) < tonum(n0)), 'fancy index out of bounds')
            kk = conc(k)
            if not (isinstance(kk, int) and kk >= 0):
                kk = z3.If(tonum(k) < 0, tonum(k) + tonum(n0), tonum(k)) if not ex.entails(tonum(k) >= 0) else tonum(k)
            return ael((kk,) + tuple(j[ia.ndim:]))
        return Arr(list(ia.shape) + a.shape[1:], elem, a.kind)
    # basic indexing
    comps = []   # per result axis: ('slice', src_axis, lo, step, len) | ('new',)
    fixed = {}   # src axis -> index
    ax = 0
    for c in idx:
        if c is NEWAXIS or c is None or (isinstance(c, Ext) and c.path == 'numpy.newaxis'):
            comps.append(('new',))
            continue
        if c is Ellipsis:
            raise Unsupported('ellipsis index')
        if ax >= a.ndim:
            raise SymRaise('IndexError', 'too many indices for array')
        if isinstance(c, SliceV):
            lo, step, ln = slice_params(ex, c, a.shape[ax])
            comps.append(('slice', ax, lo, step, ln))
        elif isinstance(c, (Arr, np.ndarray)):
            raise Unsupported('mixed advanced indexing')
        else:
            fixed[ax] = norm_index(ex, c, a.shape[ax])
        ax += 1
    for k in range(ax, a.ndim):
        comps.append(('slice', k, 0, 1, a.shape[k]))
    shape = [1 if c[0] == 'new' else c[4] for c in comps]
    ael = a.elem
    nsrc = a.ndim

    def elem(j, comps=comps, fixed=fixed):
        src = [None] * nsrc
        for ax_, v in fixed.items():
            src[ax_] = v
        for pos, c in enumerate(comps):
            if c[0] == 'slice':
                _, sax, lo, step, ln = c
                if conc(step) == 1 and conc(lo) == 0:
                    src[sax] = j[pos]
                else:
                    src[sax] = s_add(lo, s_mul(j[pos], step))
        return ael(tuple(src))
    if not comps:
        return ael(tuple(fixed[k] for k in range(nsrc)))
    out = Arr(shape, elem, a.kind, prov=a.prov, view=True, np_dtype=a.np_dtype)
    out.base = getattr(a, 'base', a)
    return out


def setitem(ex, a, idx, v):
    from .interp import SliceV
    a.elem_unmodified = False
    if hasattr(a, 'concrete'):
        try:
            del a.concrete
        except AttributeError:
            pass
    if a.view:
        raise Unsupported('store through a view')
    if isinstance(a, MaskSel):
        raise Unsupported('store into a mask selection')
    old = a.elem
    if isinstance(v, (list, tuple)):
        v = from_seq(ex, v)
    if isinstance(v, np.ndarray):
        v = lift(v)
    v_array = isinstance(v, Arr) and v.ndim > 0
    if isinstance(v, Arr) and v.ndim == 0:
        v = v.at()

    def castv(x):
        k = scalar_kind(x)
        if KINDS.index(k) > KINDS.index(a.kind):
            if a.kind == 'bool':
                return tobool(x)
            if k == 'complex':
                if v_array:
                    # numpy stores the real part of a complex *array* into a real buffer and only warns (ComplexWarning)
                    ex.event('warn', 'ComplexWarning: imaginary part discarded in array store', ex.where())
                    return s_cast(s_real(x), a.kind)
                raise SymRaise('TypeError', "can't convert complex to float")
            return s_cast(x, a.kind)
        return s_cast(x, a.kind) if a.kind in ('float', 'complex') and k != a.kind else (tobool(x) if a.kind == 'bool' and k != 'bool' else x)

    if not isinstance(idx, tuple):
        idx = (idx,)
    # boolean mask
    if len(idx) == 1 and isinstance(idx[0], (Arr, np.ndarray)) and lift(idx[0]).kind == 'bool':
        m = lift(idx[0])
        if isinstance(v, MaskSel):
            if v.mask is not m:
                raise Unsupported('mask assignment from a selection with a different mask')
            be = v.base_elem
            a.elem = lambda j: s_ite(toz(tobool(m.elem(j))), castv(be(j)), old(j))
        elif isinstance(v, Arr):
            raise Unsupported('mask assignment from a full array')
        else:
            a.elem = lambda j: s_ite(toz(tobool(m.elem(j))), castv(v), old(j))
        return
    # integer array scatter
    if len(idx) == 1 and isinstance(idx[0], (Arr, np.ndarray)):
        ia = lift(idx[0])
        meta = getattr(ia, 'meta', None)
        if a.ndim != 1 or ia.ndim != 1:
            raise Unsupported('scatter on nd arrays')
        if meta and 'arange_plus' in meta:
            start, step, d = meta['arange_plus']
            n = ia.shape[0]
            # indices start + j*step + d[j] with 0 <= d[j] < step are distinct and invertible: j = (i-start) div step
            jj = ex.newvar('j', 'int')
            dj = tonum(d.elem((jj,)))
            if not ex.entails(tonum(step) > 0):
                raise Unsupported('scatter index not of block form')
            inblock = z3.Implies(z3.And(jj >= 0, jj < tonum(n)), z3.And(dj >= 0, dj < tonum(step)))
            if not ex.entails(inblock):
                # the block-form semantics below is valid only if every offset stays inside its block: recorded as an obligation
                ex.defined(inblock, 'scatter index leaves its block (offset outside [0, block size))')
            ex.defined(z3.Implies(z3.And(jj >= 0, jj < tonum(n)), tonum(start) + jj * tonum(step) + dj < tonum(a.shape[0])), 'scatter index out of bounds')

            def elem(i, start=start, step=step, d=d, n=n):
                rel = tonum(s_sub(i[0], start))
                j = rel / tonum(step)
                hit = z3.And(rel >= 0, j < tonum(n), tonum(d.elem((j,))) == rel % tonum(step))
                val = v.elem((j,)) if isinstance(v, Arr) else v
                return s_ite(hit, castv(val), old(i))
            a.elem = elem
            return
        raise Unsupported('scatter with an unstructured index array')
    if any(isinstance(c, (Arr, np.ndarray)) for c in idx):
        raise Unsupported('mixed advanced store')
    # basic store
    conds = []
    vpos = []       # mapping target axes -> value axes for array values
    ax = 0
    sl_axes = []
    for c in idx:
        if isinstance(c, SliceV):
            lo, step, ln = slice_params(ex, c, a.shape[ax])
            if conc(step) == -1:
                raise Unsupported('reversed store')
            sl_axes.append((ax, lo, step, ln))
        else:
            k = norm_index(ex, c, a.shape[ax])
            conds.append((ax, k))
        ax += 1
    for k in range(ax, a.ndim):
        sl_axes.append((k, 0, 1, a.shape[k]))
    if isinstance(v, Arr):
        if isinstance(v, MaskSel):
            raise Unsupported('slice assignment from a mask selection')
        tshape = [s[3] for s in sl_axes]
        # numpy broadcasting of the value against the selected region
        if v.ndim > len(tshape):
            raise SymRaise('ValueError', 'could not broadcast input array')
        off = len(tshape) - v.ndim
        bflags = []
        for j, d in enumerate(v.shape):
            if ex.branch(tobool(s_eq(d, tshape[off + j]))):
                bflags.append(False)
            elif ex.branch(tobool(s_eq(d, 1))):
                bflags.append(True)
            else:
                raise SymRaise('ValueError', 'could not broadcast input array into shape')
    fixed = conds

    def elem(i):
        c = True
        rel = []
        for (sax, lo, step, ln) in sl_axes:
            ii = i[sax]
            if conc(lo) == 0 and conc(step) == 1:
                cc = s_and(tobool(s_cmp('GtE', ii, 0)), tobool(s_cmp('Lt', ii, ln)))
                rel.append(ii)
            else:
                d = s_sub(ii, lo)
                if conc(step) == 1:
                    cc = s_and(tobool(s_cmp('GtE', d, 0)), tobool(s_cmp('Lt', d, ln)))
                    rel.append(d)
                else:
                    q = s_floordiv_pos(d, step)
                    cc = s_and(s_and(tobool(s_cmp('GtE', d, 0)), tobool(s_cmp('Lt', q, ln))), tobool(s_cmp('Eq', s_mod_pos(d, step), 0)))
                    rel.append(q)
            c = s_and(c, cc)
        for (fax, k) in fixed:
            c = s_and(c, tobool(s_cmp('Eq', i[fax], k)))
        if c is False:
            return old(i)
        if isinstance(v, Arr):
            vi = tuple(0 if bflags[j] else rel[off + j] for j in range(v.ndim))
            val = v.elem(vi)
        else:
            val = v
        return s_ite(c, castv(val), old(i)) if c is not True else castv(val)
    a.elem = elem


def s_floordiv_pos(a, b):
    a, b = conc(a), conc(b)
    if isinstance(a, int) and isinstance(b, int):
        return a // b
    return tonum(a) / tonum(b)


def s_mod_pos(a, b):
    a, b = conc(a), conc(b)
    if isinstance(a, int) and isinstance(b, int):
        return a % b
    return tonum(a) % tonum(b)


def total_elems_equal(ex, a, b):
    """z3 Bool: shapes are equal"""
    if a.ndim != b.ndim:
        return False
    acc = True
    for x, y in zip(a.shape, b.shape):
        acc = s_and(acc, tobool(s_eq(x, y)))
    return acc
