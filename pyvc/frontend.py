"""frontend: locate the functions under contract in the *real* repository source.

Every run re-reads <repo>/opticomlib/*.py (repo = $VERIF_REPO or /repo), parses it with `ast`
and hands FunctionDef nodes to the interpreter.  Nothing is cached between runs and there is no
hand-written copy of any repository function anywhere in /verif.
"""
import ast, hashlib, os

MODULES = ('utils', 'typing', 'devices', 'ppm', 'ook', 'lab')


def repo_root():
    return os.environ.get('VERIF_REPO', '/repo')


class ClassInfo:
    def __init__(self, mod, node):
        self.mod = mod
        self.node = node
        self.name = node.name
        self.bases = [b.id for b in node.bases if isinstance(b, ast.Name)]
        self.methods = {n.name: n for n in node.body if isinstance(n, ast.FunctionDef)}
        self.attrs = {}
        for n in node.body:
            if isinstance(n, ast.Assign) and len(n.targets) == 1 and isinstance(n.targets[0], ast.Name):
                self.attrs[n.targets[0].id] = n.value


class Module:
    def __init__(self, name, path):
        self.name = name
        self.path = path
        self.src = open(path, encoding='utf-8').read()
        self.tree = ast.parse(self.src)
        self.functions = {}
        self.classes = {}
        self.imports = {}     # local name -> ('ext', dotted) | ('repo', module, name)
        self.assigns = {}     # module level simple assignments name -> ast expr
        for n in self.tree.body:
            if isinstance(n, ast.FunctionDef):
                self.functions[n.name] = n
            elif isinstance(n, ast.ClassDef):
                self.classes[n.name] = ClassInfo(name, n)
            elif isinstance(n, ast.Import):
                for a in n.names:
                    self.imports[a.asname or a.name.split('.')[0]] = ('ext', a.name if a.asname else a.name.split('.')[0])
            elif isinstance(n, ast.ImportFrom):
                for a in n.names:
                    local = a.asname or a.name
                    if n.level >= 1:
                        self.imports[local] = ('repo', n.module, a.name)
                    else:
                        self.imports[local] = ('ext', f'{n.module}.{a.name}')
            elif isinstance(n, ast.Assign) and len(n.targets) == 1 and isinstance(n.targets[0], ast.Name):
                self.assigns[n.targets[0].id] = n.value


class Repo:
    def __init__(self, root=None):
        self.root = root or repo_root()
        self.mods = {}
        for m in MODULES:
            p = os.path.join(self.root, 'opticomlib', m + '.py')
            self.mods[m] = Module(m, p)
        self.classes = {}
        for m in self.mods.values():
            for c in m.classes.values():
                self.classes[c.name] = c
        self.used = {}    # qualified name -> info dict (functions whose text was executed symbolically)

    # ---- lookup
    def find(self, qual):
        """'devices.PRBS' | 'typing.electrical_signal.__add__' | 'devices.FBG.ode_system' -> (module, node, classname|None)"""
        parts = qual.split('.')
        mod = self.mods[parts[0]]
        if parts[1] in mod.classes:
            ci = mod.classes[parts[1]]
            if len(parts) == 2:
                return mod.name, ci.node, None
            return mod.name, ci.methods[parts[2]], ci.name
        node = mod.functions[parts[1]]
        for p in parts[2:]:
            node = [n for n in ast.walk(node) if isinstance(n, ast.FunctionDef) and n.name == p and n is not node][0]
        return mod.name, node, None

    def method(self, clsname, name):
        """resolve a method through single inheritance; returns (ClassInfo, node) or None"""
        c = clsname
        while c is not None:
            ci = self.classes.get(c)
            if ci is None:
                return None
            if name in ci.methods:
                return ci, ci.methods[name]
            c = ci.bases[0] if ci.bases and ci.bases[0] in self.classes else None
        return None

    def class_attr(self, clsname, name):
        c = clsname
        while c is not None:
            ci = self.classes.get(c)
            if ci is None:
                return None
            if name in ci.attrs:
                return ci, ci.attrs[name]
            c = ci.bases[0] if ci.bases and ci.bases[0] in self.classes else None
        return None

    def is_subclass(self, c, base):
        while c is not None:
            if c == base:
                return True
            ci = self.classes.get(c)
            c = ci.bases[0] if ci and ci.bases and ci.bases[0] in self.classes else None
        return False

    # ---- bookkeeping for the evidence
    def note_used(self, mod, node, cls=None):
        q = f'{mod}.{cls + "." if cls else ""}{getattr(node, "name", "<lambda>")}'
        if q in self.used:
            return
        m = self.mods[mod]
        seg = ast.get_source_segment(m.src, node) or ''
        self.used[q] = {
            'function': q,
            'file': os.path.relpath(m.path, self.root),
            'lines': [node.lineno, node.end_lineno],
            'sha256': hashlib.sha256(seg.encode()).hexdigest()[:16],
        }

    def source_segment(self, mod, node):
        return ast.get_source_segment(self.mods[mod].src, node)
