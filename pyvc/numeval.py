"""Numeric evaluation of z3 terms under a concrete interpretation: the special functions are the real ones (math.cos, ...),
every other uninterpreted function is a fixed pseudo-random function of its arguments.  Such an interpretation satisfies every
axiom instance of axioms.py (they are true facts about the real functions), so if it also satisfies the path condition and makes
two terms differ clearly, the terms are *not* provably equal: a cheap, decisive filter in front of the solver."""
import hashlib, math, random
import z3

SPECIAL = {
    'sqrt': lambda x: math.sqrt(x) if x >= 0 else float('nan'), 'pow10': lambda x: 10.0 ** x, 'log10': lambda x: math.log10(x) if x > 0 else float('nan'),
    'exp': math.exp, 'ln': lambda x: math.log(x) if x > 0 else float('nan'), 'cos': math.cos, 'sin': math.sin, 'erfc': math.erfc,
    'pow2': lambda k: 2 ** k, 'powr': lambda b, e: b ** e if b > 0 else float('nan'), 'atan2': math.atan2,
    'fftfreq': lambda n, i: (i / n if 2 * i <= n - 1 else (i - n) / n) if n else float('nan'),
}


class Bad(Exception):
    pass


def _h(name, args, salt):
    s = hashlib.sha256((name + '|' + '|'.join(repr(round(a, 9)) if isinstance(a, float) else repr(a) for a in args) + '|' + str(salt)).encode()).digest()
    return (int.from_bytes(s[:6], 'big') / 2 ** 48) * 2 - 1


def evaluate(t, env, salt=0, cache=None):
    cache = {} if cache is None else cache
    k = t.get_id()
    if k in cache:
        return cache[k]
    v = _ev(t, env, salt, cache)
    cache[k] = v
    return v


def _ev(t, env, salt, cache):
    if z3.is_int_value(t):
        return t.as_long()
    if z3.is_rational_value(t):
        return t.numerator_as_long() / t.denominator_as_long()
    if z3.is_true(t):
        return True
    if z3.is_false(t):
        return False
    if not z3.is_app(t):
        raise Bad('non-app')
    d = t.decl()
    kind = d.kind()
    name = d.name()
    ch = t.children()
    if kind == z3.Z3_OP_UNINTERPRETED:
        if not ch:
            if name == 'pi':
                return math.pi
            if name not in env:
                raise Bad('unbound ' + name)
            return env[name]
        args = [evaluate(c, env, salt, cache) for c in ch]
        if name in SPECIAL:
            try:
                r = SPECIAL[name](*args)
            except (OverflowError, ValueError, ZeroDivisionError):
                raise Bad('domain')
            if isinstance(r, float) and (r != r or abs(r) > 1e200):
                raise Bad('domain')
            return r
        r = _h(name, args, salt)
        if z3.is_bool(t):
            return r > 0
        if z3.is_int(t):
            return int(r * 50)
        if z3.is_bv(t):
            return int((r + 1) * 2 ** 20)
        return r * 3
    a = lambda: [evaluate(c, env, salt, cache) for c in ch]
    if kind == z3.Z3_OP_ADD:
        return sum(a())
    if kind == z3.Z3_OP_MUL:
        r = 1
        for x in a():
            r *= x
        return r
    if kind == z3.Z3_OP_SUB:
        xs = a()
        return xs[0] - sum(xs[1:])
    if kind == z3.Z3_OP_UMINUS:
        return -a()[0]
    if kind == z3.Z3_OP_DIV:
        x, y = a()
        if y == 0:
            raise Bad('div0')
        return x / y
    if kind == z3.Z3_OP_IDIV:
        x, y = a()
        if y == 0:
            raise Bad('div0')
        q = x // y if y > 0 else -(x // -y)
        return q
    if kind == z3.Z3_OP_MOD:
        x, y = a()
        if y == 0:
            raise Bad('div0')
        return x % abs(y)
    if kind == z3.Z3_OP_POWER:
        x, y = a()
        try:
            return x ** y
        except Exception:
            raise Bad('pow')
    if kind == z3.Z3_OP_TO_REAL:
        return float(a()[0])
    if kind == z3.Z3_OP_TO_INT:
        return math.floor(a()[0])
    if kind == z3.Z3_OP_IS_INT:
        x = a()[0]
        return abs(x - round(x)) < 1e-12
    if kind == z3.Z3_OP_ITE:
        c = evaluate(ch[0], env, salt, cache)
        return evaluate(ch[1] if c else ch[2], env, salt, cache)
    if kind == z3.Z3_OP_AND:
        return all(evaluate(c, env, salt, cache) for c in ch)
    if kind == z3.Z3_OP_OR:
        return any(evaluate(c, env, salt, cache) for c in ch)
    if kind == z3.Z3_OP_NOT:
        return not a()[0]
    if kind == z3.Z3_OP_IMPLIES:
        x, y = a()
        return (not x) or y
    if kind in (z3.Z3_OP_EQ, z3.Z3_OP_IFF):
        x, y = a()
        if isinstance(x, bool) or isinstance(y, bool):
            return bool(x) == bool(y)
        return abs(x - y) <= 1e-9 * max(1.0, abs(x), abs(y))
    if kind == z3.Z3_OP_DISTINCT:
        xs = a()
        return all(abs(xs[i] - xs[j]) > 1e-9 * max(1.0, abs(xs[i])) for i in range(len(xs)) for j in range(i))
    if kind == z3.Z3_OP_LE:
        x, y = a()
        return x <= y + 1e-12
    if kind == z3.Z3_OP_LT:
        x, y = a()
        return x < y
    if kind == z3.Z3_OP_GE:
        x, y = a()
        return x >= y - 1e-12
    if kind == z3.Z3_OP_GT:
        x, y = a()
        return x > y
    raise Bad(f'op {d.name()}')


def free_consts(terms):
    seen, out, st = set(), {}, list(terms)
    while st:
        x = st.pop()
        if x.get_id() in seen:
            continue
        seen.add(x.get_id())
        if z3.is_app(x) and x.num_args() == 0 and x.decl().kind() == z3.Z3_OP_UNINTERPRETED and x.decl().name() != 'pi':
            out[x.decl().name()] = x
        st.extend(x.children())
    return out


def _syms(t):
    seen, out, st = set(), set(), [t]
    while st:
        x = st.pop()
        if x.get_id() in seen:
            continue
        seen.add(x.get_id())
        if z3.is_app(x) and x.decl().kind() == z3.Z3_OP_UNINTERPRETED:
            out.add(x.decl().name())
        st.extend(x.children())
    return out


def relevant_hyps(hyps, goal_terms):
    """hypotheses that can constrain the goal terms: (1) equations defining a constant that occurs nowhere else are dropped
    (they can always be satisfied by the choice of that constant), (2) only the hypotheses connected to the goal terms through
    shared symbols are kept (the rest is satisfiable independently, the path being feasible)."""
    hyps = list(hyps)
    gs = set()
    for t in goal_terms:
        gs |= _syms(t)
    changed = True
    while changed:
        changed = False
        symsets = [_syms(h) for h in hyps]
        count = {}
        for ss in symsets:
            for n in ss:
                count[n] = count.get(n, 0) + 1
        keep = []
        for h, ss in zip(hyps, symsets):
            drop = False
            if z3.is_eq(h):
                for side in h.children():
                    if z3.is_const(side) and side.decl().kind() == z3.Z3_OP_UNINTERPRETED:
                        n = side.decl().name()
                        other = h.children()[1] if side is h.children()[0] else h.children()[0]
                        if n not in gs and count.get(n, 0) == 1 and n not in _syms(other):
                            drop = True
                            break
            if drop:
                changed = True
            else:
                keep.append(h)
        hyps = keep
    # connected component
    rel = set(gs)
    symsets = [_syms(h) for h in hyps]
    used = [False] * len(hyps)
    grow = True
    while grow:
        grow = False
        for k, ss in enumerate(symsets):
            if not used[k] and (ss & rel):
                used[k] = True
                rel |= ss
                grow = True
    return [h for h, u in zip(hyps, used) if u]


def clearly_different(pc, a, b, guard=None, tries=24, seed=0):
    """True iff some interpretation satisfying pc (and guard) makes a and b differ by more than 1e-6 relative.
    a, b: real/int z3 terms (or lists of terms compared component-wise)."""
    la = a if isinstance(a, (list, tuple)) else [a]
    lb = b if isinstance(b, (list, tuple)) else [b]
    hyps = [h for h in pc if isinstance(h, z3.ExprRef)] + ([guard] if guard is not None else [])
    hyps = relevant_hyps(hyps, list(la) + list(lb))
    consts = free_consts(hyps + list(la) + list(lb))
    rng = random.Random(seed)
    for k in range(tries):
        env = {}
        mode = k % 3
        for n, c in consts.items():
            if z3.is_int(c):
                # sizes large, indices small: satisfies the usual 0 <= index < size hypotheses
                env[n] = rng.choice([11, 13, 16, 17]) if n[:1] in ('N', 'n', 'M', 'S') and not n.startswith('nwhere') else rng.randint(0, 9)
            elif z3.is_bool(c):
                env[n] = True if mode == 0 else rng.random() < 0.5
            elif z3.is_real(c):
                env[n] = rng.uniform(0.3, 2.5) if mode == 0 else (rng.uniform(-2.5, 2.5) if mode == 1 else rng.uniform(0.01, 40))
            else:
                env[n] = rng.randint(0, 2 ** 16)
        try:
            cache = {}
            if not all(evaluate(h, env, k, cache) is True for h in hyps):
                continue
            for x, y in zip(la, lb):
                vx, vy = evaluate(x, env, k, cache), evaluate(y, env, k, cache)
                if abs(vx - vy) > 1e-6 * max(1.0, abs(vx), abs(vy)):
                    return True
        except (Bad, OverflowError, ZeroDivisionError, TypeError):
            continue
    return False


import os as _os
_DEBUG = bool(_os.environ.get('PYVC_DEBUG'))
_REJ = {}


def likely_different(pc, a, b, guard=None, tries=12, seed=1):
    """heuristic companion of clearly_different: samples only have to satisfy the guard and the *simple* hypotheses (no function
    applications, no reduction / witness constants).  A True answer proves nothing; callers use it only to spend less solver time
    on an identification that will most probably fail (the verdict is still the solver's)."""
    la = a if isinstance(a, (list, tuple)) else [a]
    lb = b if isinstance(b, (list, tuple)) else [b]

    def simple(h):
        st, seen = [h], set()
        while st:
            x = st.pop()
            if x.get_id() in seen:
                continue
            seen.add(x.get_id())
            if z3.is_quantifier(x):
                return False
            if z3.is_app(x) and x.decl().kind() == z3.Z3_OP_UNINTERPRETED and (x.num_args() > 0 or '!' in x.decl().name()):
                return False
            st.extend(x.children())
        return True
    hyps = [h for h in pc if isinstance(h, z3.ExprRef) and simple(h)] + ([guard] if guard is not None else [])
    consts = free_consts([h for h in pc if isinstance(h, z3.ExprRef)] + ([guard] if guard is not None else []) + list(la) + list(lb))
    rng = random.Random(seed)
    differ = same = 0
    for k in range(tries * 3):
        env = {}
        mode = k % 3
        for n, c in consts.items():
            if z3.is_int(c):
                env[n] = rng.choice([11, 13, 16, 17]) if n[:1] in ('N', 'n', 'M', 'S') and not n.startswith('nwhere') else rng.randint(0, 9)
            elif z3.is_bool(c):
                env[n] = True if mode == 0 else rng.random() < 0.5
            elif z3.is_real(c):
                env[n] = rng.uniform(0.3, 2.5) if mode == 0 else (rng.uniform(-2.5, 2.5) if mode == 1 else rng.uniform(0.01, 40))
            else:
                env[n] = rng.randint(0, 2 ** 16)
        try:
            # repair: equations  constant == term  among the simple hypotheses are satisfied by construction
            for h in hyps:
                if z3.is_eq(h):
                    l_, r_ = h.children()
                    for cst, oth in ((l_, r_), (r_, l_)):
                        if z3.is_const(cst) and cst.decl().kind() == z3.Z3_OP_UNINTERPRETED and cst.decl().name() in env and not z3.is_bool(cst):
                            try:
                                env[cst.decl().name()] = evaluate(oth, env, k, {})
                                break
                            except Bad:
                                pass
            cache = {}
            if not all(evaluate(h, env, k, cache) is True for h in hyps):
                if _DEBUG:
                    for h in hyps:
                        if evaluate(h, env, k, cache) is not True:
                            _REJ[str(h)[:120]] = _REJ.get(str(h)[:120], 0) + 1
                continue
            d = False
            for x, y in zip(la, lb):
                vx, vy = evaluate(x, env, k, cache), evaluate(y, env, k, cache)
                if abs(vx - vy) > 1e-6 * max(abs(vx), abs(vy)) and max(abs(vx), abs(vy)) > 1e-280:      # purely relative: this is only a hint
                    d = True
            differ += d
            same += not d
        except (Bad, OverflowError, ZeroDivisionError, TypeError):
            continue
        if differ + same >= tries:
            break
    return differ >= 3 and differ >= same          # provably equal sides never differ on a sample (up to rounding); underflow can make different sides coincide
