"""Textbook axioms for the uninterpreted scalar functions, instantiated (quantifier-free) on the terms that occur
in a query.  Every lemma below is a true statement about the real function; `audit.py` spot-checks each schema
numerically.  Conditional forms (a == b + c  =>  f(a) = f(b)*f(c)) avoid creating new terms."""
from fractions import Fraction
import z3
from .values import UF, PI

MAX_TRIPLE = 7


def collect(terms):
    apps = {}
    seen = set()
    stack = list(terms)
    while stack:
        t = stack.pop()
        if not z3.is_expr(t):
            continue
        k = t.get_id()
        if k in seen:
            continue
        seen.add(k)
        if z3.is_app(t):
            n = t.decl().name()
            if n in UF and t.num_args() > 0:
                apps.setdefault(n, {})[k] = t
            stack.extend(t.children())
        elif z3.is_quantifier(t):
            stack.append(t.body())
    return {n: list(d.values()) for n, d in apps.items()}


def _uses_pi(terms):
    seen = set()
    stack = list(terms)
    while stack:
        t = stack.pop()
        k = t.get_id()
        if k in seen:
            continue
        seen.add(k)
        if z3.is_const(t) and t.decl().name() == 'pi':
            return True
        stack.extend(t.children())
    return False


def lemmas_for(apps, with_pi, level='all'):
    if level == 'basic':
        return basic_lemmas(apps, with_pi)
    L = []
    R = z3.RealVal
    if with_pi:
        L += [PI > R('3.14159'), PI < R('3.1416')]
    for t in apps.get('sqrt', []):
        x = t.arg(0)
        L += [z3.Implies(x >= 0, z3.And(t >= 0, t * t == x))]
        if z3.is_app(x) and x.decl().name() == 'pow10':
            L.append(t == UF['pow10'](x.arg(0) / 2))
    p10 = apps.get('pow10', [])
    for t in p10:
        y = t.arg(0)
        L += [t > 0, z3.Implies(y == 0, t == 1), z3.Implies(y == 1, t == 10), z3.Implies(y == -1, t == R('1/10')),
              z3.Implies(y == 3, t == 1000), z3.Implies(y == -3, t == R('1/1000')), z3.Implies(y == 2, t == 100),
              z3.Implies(y > 0, t > 1), z3.Implies(y < 0, t < 1), UF['log10'](t) == y]
    _pairs_mono(L, p10, increasing=True)
    _triples_hom(L, p10)
    lg = apps.get('log10', [])
    for t in lg:
        x = t.arg(0)
        L += [z3.Implies(x > 0, UF['pow10'](t) == x), z3.Implies(x == 1, t == 0), z3.Implies(x == 10, t == 1),
              z3.Implies(x == 1000, t == 3), z3.Implies(x > 1, t > 0), z3.Implies(z3.And(x > 0, x < 1), t < 0)]
        if z3.is_app(x) and x.decl().kind() == z3.Z3_OP_MUL and x.num_args() == 2:
            a, b = x.arg(0), x.arg(1)
            L.append(z3.Implies(z3.And(a > 0, b > 0), t == UF['log10'](a) + UF['log10'](b)))
    for i, s in enumerate(lg):
        for t in lg[i + 1:]:
            a, b = s.arg(0), t.arg(0)
            L.append(z3.Implies(z3.And(a > 0, b > 0), z3.And((a < b) == (s < t), (a == b) == (s == t))))
    ex = apps.get('exp', [])
    for t in ex:
        y = t.arg(0)
        L += [t > 0, z3.Implies(y == 0, t == 1), z3.Implies(y > 0, t > 1), z3.Implies(y < 0, t < 1), t >= 1 + y]
    _pairs_mono(L, ex, increasing=True)
    _triples_hom(L, ex)
    for t in apps.get('ln', []):
        x = t.arg(0)
        L += [z3.Implies(x > 0, UF['exp'](t) == x), z3.Implies(x == 1, t == 0), z3.Implies(x > 1, t > 0), z3.Implies(z3.And(x > 0, x < 1), t < 0),
              z3.Implies(x == 10, z3.And(t > R('2.30258509'), t < R('2.30258510'))),
              z3.Implies(x == 2, z3.And(t > R('0.693147'), t < R('0.693148')))]
    cs = {}
    for n in ('cos', 'sin'):
        for t in apps.get(n, []):
            cs.setdefault(t.arg(0).get_id(), t.arg(0))
    args = list(cs.values())
    C, S = UF['cos'], UF['sin']
    for a in args:
        L += [C(a) * C(a) + S(a) * S(a) == 1, C(a) <= 1, C(a) >= -1, S(a) <= 1, S(a) >= -1,
              z3.Implies(a == 0, z3.And(C(a) == 1, S(a) == 0)),
              z3.Implies(a == PI / 2, z3.And(C(a) == 0, S(a) == 1)),
              z3.Implies(a == -PI / 2, z3.And(C(a) == 0, S(a) == -1)),
              z3.Implies(a == PI, z3.And(C(a) == -1, S(a) == 0))]
    for i, a in enumerate(args):
        for b in args[i + 1:]:
            L += [z3.Implies(a == -b, z3.And(C(a) == C(b), S(a) == -S(b))),
                  z3.Implies(a == b + PI, z3.And(C(a) == -C(b), S(a) == -S(b))),
                  z3.Implies(b == a + PI, z3.And(C(a) == -C(b), S(a) == -S(b))),
                  z3.Implies(a == b + 2 * PI, z3.And(C(a) == C(b), S(a) == S(b))),
                  z3.Implies(b == a + 2 * PI, z3.And(C(a) == C(b), S(a) == S(b)))]
    if len(args) <= MAX_TRIPLE:
        for a in args:
            for i, b in enumerate(args):
                for c in args[i:]:
                    if a is b or a is c:
                        continue
                    L.append(z3.Implies(a == b + c, z3.And(C(a) == C(b) * C(c) - S(b) * S(c), S(a) == S(b) * C(c) + C(b) * S(c))))
    er = apps.get('erfc', [])
    for t in er:
        z = t.arg(0)
        L += [t > 0, t < 2, z3.Implies(z == 0, t == 1), z3.Implies(z > 0, t < 1), z3.Implies(z < 0, t > 1)]
    for i, s in enumerate(er):
        for t in er[i + 1:]:
            a, b = s.arg(0), t.arg(0)
            L += [z3.Implies(a == -b, s == 2 - t), (a < b) == (s > t), (a == b) == (s == t)]
    for t in apps.get('powr', []):
        b, e = t.arg(0), t.arg(1)
        L += [z3.Implies(b > 0, t > 0), z3.Implies(z3.And(b > 0, b <= 1, e >= 0), t <= 1), z3.Implies(e == 0, t == 1), z3.Implies(e == 1, t == b),
              z3.Implies(z3.And(b >= 0, e > 0), t >= 0), z3.Implies(z3.And(b >= 1, e >= 0), t >= 1)]
    p2 = apps.get('pow2', [])
    for t in p2:
        k = t.arg(0)
        L += [t > 0, z3.Implies(k == 0, t == 1), z3.Implies(k == 1, t == 2), z3.Implies(k > 0, t >= 2 * k)]
    for i, s in enumerate(p2):
        for t in p2[i + 1:]:
            a, b = s.arg(0), t.arg(0)
            L += [z3.Implies(a == b + 1, s == 2 * t), z3.Implies(b == a + 1, t == 2 * s), (a < b) == (s < t)]
    return L


def _pairs_mono(L, ts, increasing):
    for i, s in enumerate(ts):
        for t in ts[i + 1:]:
            a, b = s.arg(0), t.arg(0)
            L.append((a < b) == ((s < t) if increasing else (s > t)))
            L.append((a == b) == (s == t))
            L.append(z3.Implies(a == -b, s * t == 1))


def _triples_hom(L, ts):
    if len(ts) > MAX_TRIPLE:
        return
    for a in ts:
        for i, b in enumerate(ts):
            for c in ts[i:]:
                if a is b or a is c:
                    continue
                L.append(z3.Implies(a.arg(0) == b.arg(0) + c.arg(0), a == b * c))


def basic_lemmas(apps, with_pi):
    """sign / square facts only (for polynomial-identity obligations where the special functions are just atoms)"""
    L = []
    if with_pi:
        L += [PI > z3.RealVal('3.14159'), PI < z3.RealVal('3.1416')]
    for t in apps.get('sqrt', []):
        x = t.arg(0)
        L.append(z3.Implies(x >= 0, z3.And(t >= 0, t * t == x)))
    for n in ('pow10', 'exp'):
        for t in apps.get(n, []):
            L.append(t > 0)
    for t in apps.get('erfc', []):
        L += [t > 0, t < 2]
    cs = {}
    for n in ('cos', 'sin'):
        for t in apps.get(n, []):
            cs.setdefault(t.arg(0).get_id(), t.arg(0))
    for a in cs.values():
        L.append(UF['cos'](a) * UF['cos'](a) + UF['sin'](a) * UF['sin'](a) == 1)
    for t in apps.get('powr', []):
        L.append(z3.Implies(t.arg(0) > 0, t > 0))
    return L


def abstract_all(terms, want_map=False):
    """replace every application of ANY uninterpreted function (special functions and array element functions) by a fresh
    constant, innermost first.  The result is pure arithmetic; valid there => valid originally (congruence only lost).
    With want_map the list of (constant, decl, argument terms in abstracted form) is returned as well."""
    terms = [z3.simplify(t) for t in terms]
    n = 0
    amap = []
    for _ in range(16):
        inner = {}
        seen = set()
        stack = list(terms)
        while stack:
            t = stack.pop()
            if t.get_id() in seen:
                continue
            seen.add(t.get_id())
            ch = t.children()
            if z3.is_app(t) and t.num_args() > 0 and (t.decl().kind() == z3.Z3_OP_UNINTERPRETED or (t.decl().kind() == z3.Z3_OP_TO_REAL and not z3.is_int_value(t.arg(0)))):
                if not any(_has_uninterp_app(c) for c in ch):
                    inner[t.get_id()] = t
                    continue
            stack.extend(ch)
        if not inner:
            break
        subs = []
        for t in inner.values():
            v = z3.Const(f'abs!{n}', t.sort())
            n += 1
            subs.append((t, v))
            amap.append((v, t.decl(), [t.arg(k) for k in range(t.num_args())]))
        terms = [z3.simplify(z3.substitute(x, *subs)) for x in terms]
    return (terms, amap) if want_map else terms


def model_respects_congruence(m, amap):
    """does a model of the abstracted formula interpret equal-argument applications of the same function equally?
    If so it extends to a model of the original formula (the functions are otherwise unconstrained)."""
    by_decl = {}
    for v, d, args in amap:
        by_decl.setdefault(d.name(), []).append((v, args))
    for items in by_decl.values():
        vals = []
        for v, args in items:
            av = tuple(str(z3.simplify(m.eval(a, model_completion=True))) for a in args)
            vv = str(z3.simplify(m.eval(v, model_completion=True)))
            vals.append((av, vv))
        seen = {}
        for av, vv in vals:
            if av in seen and seen[av] != vv:
                return False
            seen[av] = vv
    return True


def _has_uninterp_app(t):
    seen, st = set(), [t]
    while st:
        x = st.pop()
        if x.get_id() in seen:
            continue
        seen.add(x.get_id())
        if z3.is_app(x) and x.num_args() > 0 and (x.decl().kind() == z3.Z3_OP_UNINTERPRETED or (x.decl().kind() == z3.Z3_OP_TO_REAL and not z3.is_int_value(x.arg(0)))):
            return True
        st.extend(x.children())
    return False


def abstract_ufs(terms):
    """replace every special-function application by a fresh real constant, innermost first (congruence is preserved:
    syntactically equal applications get the same constant).  Sound for proving validity."""
    terms = [z3.simplify(t) for t in terms]
    mapping = {}
    for _ in range(12):
        apps = collect(terms)
        allapps = [t for ts in apps.values() for t in ts]
        if not allapps:
            break
        inner = [t for t in allapps if not collect(list(t.children()))]
        if not inner:
            break
        subs = []
        for t in inner:
            v = z3.Real(f'uf!{t.decl().name()}!{len(mapping)}') if t.sort() == z3.RealSort() else z3.Int(f'uf!{t.decl().name()}!{len(mapping)}')
            mapping[v] = t
            subs.append((t, v))
        terms = [z3.simplify(z3.substitute(x, *subs)) for x in terms]
    return terms, mapping


def instantiate(terms, rounds=2, level='all'):
    """lemma instances for all special-function applications occurring in `terms` (and in the lemmas themselves)"""
    out = []
    seen = set()
    cur = list(terms)
    pi_done = False
    for _ in range(rounds):
        apps = collect(cur + out)
        with_pi = (not pi_done) and (_uses_pi(cur + out) or 'cos' in apps or 'sin' in apps)
        new = []
        for l in lemmas_for(apps, with_pi, level):
            l = z3.simplify(l)
            if z3.is_true(l):
                continue
            k = l.get_id()
            if k not in seen:
                seen.add(k)
                new.append(l)
        if with_pi:
            pi_done = True
        if not new:
            break
        out += new
    return out
