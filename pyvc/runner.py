"""vcheck driver: run the clauses of one property, aggregate, write evidence, print verdict lines."""
import argparse, importlib, json, os, sys, time, hashlib, multiprocessing as mp

HERE = os.path.dirname(os.path.dirname(os.path.abspath(__file__)))
sys.path.insert(0, HERE)
from pyvc import vc          # noqa
from pyvc.frontend import repo_root   # noqa

EXIT_OK, EXIT_VIOLATION, EXIT_UNDECIDED, EXIT_CRASH = 0, 1, 2, 3

ASSUMPTIONS = [
    'A-real: float arithmetic treated as exact real arithmetic (definedness obligations catch division by zero and domain errors, not rounding/overflow)',
    'A-int: numpy integer arrays treated as mathematical integers (no int64 overflow) except the PRBS register, which is a 64-bit vector',
    'numeric literals are the exact rationals of their source text',
    'numpy/scipy primitives behave as the assumed contracts in pyvc/extern.py (index maps, freshness of results, fft/ifft mutually inverse linear maps, sosfiltfilt a fixed linear operator per (order, cutoff, fs)); audited numerically by `./vcheck audit`, not proved',
    'special functions (exp, cos, sin, log10, 10**x, sqrt, erfc) are uninterpreted with the textbook axioms of pyvc/axioms.py',
    'tic()/toc()/execution_time, print, tqdm and matplotlib calls are dropped from the verified text',
    'the verifier itself (pyvc: AST interpreter, axiom instantiation) is trusted; mitigated by native replay of counter-models, CPython cross-checks of the same contracts and the mutant self-test',
]
TRUSTED = ['z3 5.1 (SMT)', 'cvc5 1.0.3 (fallback on z3 unknown)', 'CPython ast module', 'pyvc symbolic executor + extern/axioms tables']


def load_known():
    p = os.path.join(HERE, 'known_findings.txt')
    out = []
    if os.path.exists(p):
        for line in open(p):
            line = line.strip()
            if line.startswith('finding:'):
                kv = dict(x.split('=', 1) for x in line[len('finding:'):].split() if '=' in x)
                kv['_text'] = line.split('::', 1)[1].strip() if '::' in line else line
                out.append(kv)
    return out


def clauses_of(mod):
    fs = [getattr(mod, n) for n in dir(mod)]
    fs = [f for f in fs if callable(f) and getattr(f, 'is_clause', False)]
    fs.sort(key=lambda f: f.__code__.co_firstlineno)
    return fs


def run_property(pid, tier, seed, jobs=None, only=None):
    t0 = time.time()
    modname = f'contracts.{pid}'
    mod = importlib.import_module(modname)
    level = getattr(mod, 'LEVEL', 'proof')
    cls = [f for f in clauses_of(mod) if (tier == 'thorough' or f.tier == 'quick')]
    if only:
        cls = [f for f in cls if any(o in f.clause_name for o in only)]
    work = [(pid, modname, f.__name__, tier, seed) for f in cls]
    jobs = jobs or min(16, max(1, len(work)))
    if jobs > 1 and len(work) > 1:
        from concurrent.futures import ProcessPoolExecutor
        with ProcessPoolExecutor(max_workers=jobs, mp_context=mp.get_context('fork')) as pool:
            outs = list(pool.map(vc.run_clause, work))
    else:
        outs = [vc.run_clause(w) for w in work]
    return mod, level, cls, outs, time.time() - t0


def main(argv=None):
    ap = argparse.ArgumentParser()
    ap.add_argument('prop')
    ap.add_argument('--tier', default=os.environ.get('VERIF_TIER', 'quick'))
    ap.add_argument('--jobs', type=int, default=None)
    ap.add_argument('--only', action='append')
    ap.add_argument('--verbose', '-v', action='store_true')
    ap.add_argument('--no-evidence', action='store_true')
    a = ap.parse_args(argv)
    seed = int(os.environ.get('VERIF_SEED', '0'))
    tier = a.tier if a.tier in ('quick', 'thorough') else 'quick'
    pid = a.prop
    mod, level, cls, outs, wall = run_property(pid, tier, seed, a.jobs, a.only)
    known = [k for k in load_known() if k.get('property') == pid]
    results = []
    used = {}
    crashes = []
    solver_time = 0.0
    notes = []
    # reference obligation counts per clause, recorded on the unchanged tree (`VERIF_WRITE_BASELINE=1 ./vcheck Cxx`): a clause that now
    # generates fewer obligations has silently stopped talking about part of the code -> undecided, never a quiet pass
    bl_path = os.path.join(HERE, 'baseline_obligations.json')
    baseline = json.load(open(bl_path)) if os.path.exists(bl_path) else {}
    write_bl = bool(os.environ.get('VERIF_WRITE_BASELINE')) and not a.only
    for f, o in zip(cls, outs):
        if o['crash']:
            crashes.append((f.clause_name, o['crash']))
        n_obl = sum(1 for r in o['results'] if r['kind'] in ('proof', 'bounded'))
        n_proof = sum(1 for r in o['results'] if r['kind'] == 'proof' and not r['name'].endswith('.obligation-count'))
        if not o['crash'] and n_obl < f.min_obl:
            o['results'].append({'name': f.clause_name + '.obligation-count', 'status': 'undecided', 'solver': '', 'time_s': 0, 'kind': 'proof',
                                 'detail': {'reason': f'vacuity guard: {n_obl} obligations generated, at least {f.min_obl} expected'}})
        key = f'{tier}:{f.clause_name}'
        if write_bl:
            baseline[key] = n_proof
        elif not o['crash'] and key in baseline and n_proof < baseline[key] and not any(r['status'] in ('violated',) for r in o['results']):
            o['results'].append({'name': f.clause_name + '.obligation-count', 'status': 'undecided', 'solver': '', 'time_s': 0, 'kind': 'proof',
                                 'detail': {'reason': f'vacuity guard: {n_proof} proof obligations generated, {baseline[key]} on the reference tree (paths or cases were lost)'}})
        results += o['results']
        for u in o['used']:
            used[u['function']] = u
        solver_time += o['solver_time']
        notes += o['notes']
    if write_bl:
        json.dump(dict(sorted(baseline.items())), open(bl_path, 'w'), indent=0)
    viol, und, known_hits = [], [], []
    for r in results:
        if r['status'] in ('violated', 'bounded_fail'):
            k = [x for x in known if x.get('obligation') == r['name']]
            if k:
                r['status'] = 'known'
                known_hits.append((r, k[0]))
            else:
                viol.append(r)
        elif r['status'] in ('undecided', 'cover_fail', 'cover_unknown'):
            und.append(r)
    os.makedirs(os.path.join(HERE, 'replays'), exist_ok=True)
    if not a.only:
        for fn in os.listdir(os.path.join(HERE, 'replays')):
            if fn.startswith(pid + '_'):
                os.unlink(os.path.join(HERE, 'replays', fn))
    lines = []
    for r, k in known_hits:
        lines.append(f"KNOWN-FINDING: property={pid} {r['name']}: {k['_text']}")
    for r in viol:
        safe = r['name'].replace('/', '_').replace('[', '_').replace(']', '').replace(' ', '')
        rp = os.path.join('replays', f'{pid}_{safe}.json')
        rep = {'property': pid, 'obligation': r['name'], 'status': r['status'], 'solver': r['solver'], 'detail': r['detail'],
               'repo': repo_root(), 'functions': [u for u in used.values()],
               'replay_cmd': f'./vcheck replay {rp}'}
        json.dump(rep, open(os.path.join(HERE, rp), 'w'), indent=1, default=str)
        confirmed = r['detail'].get('confirmed') or r['status'] == 'bounded_fail'
        lines.append(f"VIOLATION property={pid} replay={rp}" + ('' if confirmed else ' obligation=' + r['name'] + ' no-failing-input-found'))
    proofs = [r for r in results if r['kind'] == 'proof']
    bounded = [r for r in results if r['kind'] == 'bounded']
    covers = [r for r in results if r['kind'] == 'cover']
    discharged = sum(1 for r in proofs if r['status'] == 'proved')
    by_solver = {}
    for r in proofs:
        if r['status'] == 'proved':
            by_solver[r['solver'] or 'executor'] = by_solver.get(r['solver'] or 'executor', 0) + 1
    samples = [{'obligation': r['name'], 'status': r['status'], 'solver': r['solver'], 'words': r['detail'].get('words', '')} for r in proofs[:6]]
    cov = {
        'obligations': len(proofs), 'discharged': discharged,
        'checker_cmd': f'./vcheck {pid} --tier {tier}', 'trusted_base': TRUSTED + list(getattr(mod, 'TRUSTED', [])),
        'discharged_by_backend': by_solver, 'solver_time_s': round(solver_time, 3),
        'vacuity_covers': {'total': len(covers), 'ok': sum(1 for c in covers if c['status'] == 'cover_ok')},
        'functions_under_contract': sorted(used.values(), key=lambda u: u['function']),
        'samples': samples or [{'note': 'no deductive obligations'}],
        'per_obligation': [{'name': r['name'], 'status': r['status'], 'solver': r['solver'], 'time_s': r['time_s'], 'kind': r['kind']} for r in results],
        'explanation': getattr(mod, 'EXPLANATION', ''),
        'undecided': [{'name': r['name'], 'reason': r['detail'].get('reason', r['status'])} for r in und],
        'known_findings': [r['name'] for r, _ in known_hits],
        'notes': notes,
    }
    bsum = {'evaluations': 0, 'distinct_nontrivial': 0, 'rule': getattr(mod, 'BOUNDED_RULE', ''), 'samples': [], 'clauses': []}
    for r in bounded:
        d = r['detail']
        bsum['evaluations'] += int(d.get('evaluations', 0))
        bsum['distinct_nontrivial'] += int(d.get('distinct_nontrivial', 0))
        bsum['samples'] += d.get('samples', [])[:2]
        bsum['clauses'].append({'name': r['name'], 'status': r['status'], 'evaluations': d.get('evaluations', 0), 'bound': d.get('bound', '')})
    cov['bounded'] = bsum
    if level in ('exploration', 'fault_enumeration') or (bounded and level != 'proof'):
        cov['evaluations'] = bsum['evaluations']
        cov['distinct_nontrivial'] = bsum['distinct_nontrivial']
        cov['rule'] = bsum['rule']
        if bsum['samples']:
            cov['samples'] = bsum['samples'][:6] + samples[:3]
    ev = {'property_id': pid, 'tier': tier, 'seed': seed, 'level': level, 'coverage': cov,
          'assumptions': ASSUMPTIONS + list(getattr(mod, 'ASSUMPTIONS', [])), 'wall_s': round(wall, 2), 'violations': len(viol)}
    if not a.no_evidence and not a.only:
        os.makedirs(os.path.join(HERE, 'evidence'), exist_ok=True)
        json.dump(ev, open(os.path.join(HERE, 'evidence', f'{pid}.json'), 'w'), indent=1, default=str)
    for l in lines[:40]:
        print(l)
    if len(lines) > 40:
        print(f'... {len(lines) - 40} more VIOLATION/KNOWN-FINDING lines (all replay files are under replays/)')
    if a.verbose or und or crashes or viol:
        shown = 0
        for r in results:
            if a.verbose or r['status'] not in ('proved', 'cover_ok', 'bounded_ok'):
                shown += 1
                if shown > 12 and not a.verbose:
                    print('  ... (more; use -v)')
                    break
                extra = ''
                if r['status'] not in ('proved', 'cover_ok', 'bounded_ok'):
                    extra = ' ' + json.dumps(r['detail'], default=str)[:(1500 if a.verbose else 400)]
                print(f"  [{r['status']:>10}] {r['name']} ({r['solver']}, {r['time_s']}s){extra}")
    for n, c in crashes:
        print(f'CHECKER-CRASH clause={n}\n{c}')
    print(f"{pid}: {discharged}/{len(proofs)} obligations discharged {by_solver}, {len(bounded)} bounded clauses ({bsum['evaluations']} evaluations), "
          f"{len(covers)} covers, {len(viol)} violations, {len(known_hits)} known findings, {len(und)} undecided, wall {wall:.1f}s, solver {solver_time:.1f}s")
    if viol:
        return EXIT_VIOLATION
    if crashes:
        return EXIT_CRASH
    if und:
        return EXIT_UNDECIDED
    if not proofs and not bounded:
        print('no obligations generated')
        return EXIT_UNDECIDED
    return EXIT_OK


if __name__ == '__main__':
    sys.exit(main())
