#!/usr/bin/env python3
"""Regenerate MANIFEST.json from the contract modules' metadata (LEVEL, LEVEL_TEXT, LEVEL_NOTE, TECHNIQUE)."""
import ast, json, os, sys
HERE = os.path.dirname(os.path.dirname(os.path.abspath(__file__)))
props = [json.loads(l) for l in open(os.path.join(HERE, 'properties.jsonl'))]
NA_FILE = os.path.join(HERE, 'not_applicable.json')
na_reasons = json.load(open(NA_FILE)) if os.path.exists(NA_FILE) else {}


def meta(pid):
    p = os.path.join(HERE, 'contracts', pid + '.py')
    if not os.path.exists(p):
        return None
    t = ast.parse(open(p).read())
    out = {}
    for n in t.body:
        if isinstance(n, ast.Assign) and len(n.targets) == 1 and isinstance(n.targets[0], ast.Name):
            try:
                out[n.targets[0].id] = ast.literal_eval(n.value)
            except Exception:
                pass
    return out

checks, na = [], []
for p in props:
    pid = p['id']
    m = meta(pid)
    if m is None or m.get('DISABLED'):
        na.append({'property_id': pid, 'reason': na_reasons.get(pid, 'check not built yet (build in progress)')})
        continue
    checks.append({
        'property_id': pid,
        'quick_cmd': f'./vcheck {pid} --tier quick',
        'thorough_cmd': f'./vcheck {pid} --tier thorough',
        'evidence_file': f'evidence/{pid}.json',
        'replay_cmd_template': './vcheck replay {path}',
        'engine': 'pyvc',
        'level_claimed': {'category': m.get('LEVEL', 'proof'), 'text': m.get('LEVEL_TEXT', m.get('EXPLANATION', '')), 'design_ref': f'DESIGN.md section 3, {pid}'},
        'level_note': m.get('LEVEL_NOTE', 'trusted: z3/cvc5, the pyvc symbolic executor and its assumed numpy/scipy contracts (pyvc/extern.py, pyvc/axioms.py); floats as reals'),
        'technique': m.get('TECHNIQUE', 'contract-based deductive verification: VCs generated from the real AST by symbolic execution, discharged by z3 (cvc5 fallback); bounded run-time contract checks where stated'),
    })
man = {
    'version': 1, 'setup_cmd': './setup.sh',
    'hooks': {'guard': 'OPTICOMLIB_VERIF', 'enable': 'none needed: contracts are sidecar files under /verif/contracts; /repo is read (re-parsed on every run), never patched',
              'baseline_off_cmd': 'cd /repo && /venv/bin/python -m pytest -ra -q -p no:cacheprovider --timeout=900 --continue-on-collection-errors',
              'source_commits': [], 'add_only': True},
    'engines': [{'name': 'pyvc', 'path': 'pyvc/', 'serves_properties': [c['property_id'] for c in checks],
                 'kind_free_text': 'AST -> VC generator (path-wise symbolic executor over the real repository source, loop invariants and contracts in sidecar files) + z3/cvc5 discharge + native replay of counter-models; bounded deal-style run-time contract checks for clauses outside the verifier\'s reach'}],
    'checks': checks,
    'notes': 'exit codes: 0 held, 1 violation (VIOLATION line), 2 undecided (never a VIOLATION line), 3 checker crash. VERIF_REPO selects the tree (default /repo).',
    'not_applicable': na,
}
json.dump(man, open(os.path.join(HERE, 'MANIFEST.json'), 'w'), indent=1)
print(f'{len(checks)} checks, {len(na)} not applicable')
