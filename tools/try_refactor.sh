#!/bin/sh
# tools/try_refactor.sh <patch.diff> [Cxx ...] : run checks against a behaviour-preserving change on a scratch copy; prints exit code per check (1 = false alarm)
P="$1"; shift
S=$(mktemp -d /tmp/vscratch_XXXXXX)
cp -r /repo/opticomlib "$S/opticomlib"
( cd "$S" && git init -q . && git apply "$P" ) || { echo "patch does not apply"; rm -rf "$S"; exit 9; }
ids=${@:-$(python3 -c "import json; print(' '.join(c['property_id'] for c in json.load(open('/verif/MANIFEST.json'))['checks']))")}
for id in $ids; do
  out=$(cd /verif && VERIF_REPO="$S" ./vcheck $id --no-evidence 2>&1); e=$?
  echo "exit=$e $(echo "$out" | tail -1 | cut -c1-200)"
  [ $e -eq 1 ] && echo "$out" | grep VIOLATION | head -3 | cut -c1-250
  [ $e -ge 2 ] && echo "$out" | grep -E "undecided|CRASH" | head -3 | cut -c1-300
done
rm -rf "$S"
