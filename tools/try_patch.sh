#!/bin/sh
# tools/try_patch.sh <patch.diff> <Cxx> [demo.py]  : apply a seeded change to /repo, run the check, undo it straight afterwards
set -u
P="$1"; C="$2"; D="${3:-}"
rundemo() { ( cd /repo && timeout 900 /venv/bin/python -c "import runpy,sys; sys.path.insert(0,'/repo'); runpy.run_path('$D', run_name='__main__')" >/dev/null 2>&1; echo "demo on $1 tree: exit $?" ); }
if [ -n "$D" ]; then rundemo original; fi
cd /repo && git apply "$P" || { echo "patch does not apply"; exit 9; }
if [ -n "$D" ]; then rundemo changed; fi
( cd /repo && timeout 1200 /venv/bin/python -m pytest -q -p no:cacheprovider -x 2>&1 | tail -1 | cut -c1-80 )
( cd /verif && ./vcheck "$C" --no-evidence 2>&1 | grep -E "^VIOLATION|^$C:" | cut -c1-230 | head -${LINES_MAX:-5} )
git -C /repo checkout -- . 
git -C /repo status --short | head -3
