#!/bin/bash
# run every registered check (quick tier by default) and print one summary line each;  tools/runall.sh [quick|thorough] [Cxx ...]
cd "$(dirname "$0")/.."
tier=${1:-quick}; shift
ids=${@:-$(python3 -c "import json; print(' '.join(c['property_id'] for c in json.load(open('MANIFEST.json'))['checks']))")}
rc=0
for id in $ids; do
  out=$(./vcheck $id --tier $tier 2>&1); e=$?
  echo "exit=$e $(echo "$out" | tail -1 | cut -c1-260)"
  [ $e -ne 0 ] && { rc=1; echo "$out" | grep -E "VIOLATION|undecided|CRASH" | head -5 | cut -c1-300; }
done
exit $rc
