#!/bin/sh
# tools/try_patch_scratch.sh <patch.diff> <Cxx> [demo.py] : like try_patch.sh but on a scratch copy of /repo (VERIF_REPO), leaving /repo untouched
set -u
P="$1"; C="$2"; D="${3:-}"
S=$(mktemp -d /tmp/vscratch_XXXXXX)
cp -r /repo/opticomlib "$S/opticomlib"; cp -r /repo/tests "$S/tests" 2>/dev/null
( cd "$S" && git init -q . && git apply "$P" ) || { echo "patch does not apply"; rm -rf "$S"; exit 9; }
if [ -n "$D" ]; then ( cd "$S" && PYTHONPATH="$S" timeout 900 /venv/bin/python "$D" >/dev/null 2>&1; echo "demo on changed tree: exit $?" ); fi
( cd "$S" && PYTHONPATH="$S" timeout 1200 /venv/bin/python -m pytest -q -p no:cacheprovider -x tests 2>&1 | tail -1 | cut -c1-80 )
( cd /verif && VERIF_REPO="$S" ./vcheck "$C" --no-evidence 2>&1 | grep -E "^VIOLATION|^$C:" | cut -c1-230 | head -${LINES_MAX:-4} )
rm -rf "$S"
