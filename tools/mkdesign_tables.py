#!/usr/bin/env python3
"""Rewrite the generated block of DESIGN.md (between the BEGIN/END GENERATED markers) from the committed artefacts:
evidence/*.json, seeded/*/meta.json, selftest/mutants.py, known_findings.txt."""
import glob, json, os, re, sys
HERE = os.path.dirname(os.path.dirname(os.path.abspath(__file__)))
sys.path.insert(0, HERE)
from selftest.mutants import MUTANTS
man = json.load(open(os.path.join(HERE, 'MANIFEST.json')))
out = []
out.append('#### 7.A Checks as registered (numbers from the committed evidence files, quick tier)\n')
out.append('| id | level | proof obligations discharged | by back end | bounded clauses (evaluations) | vacuity covers | wall s |')
out.append('|----|-------|------------------------------|------------|-------------------------------|----------------|--------|')
for c in man['checks']:
    pid = c['property_id']
    f = os.path.join(HERE, 'evidence', pid + '.json')
    if not os.path.exists(f):
        out.append(f'| {pid} | {c["level_claimed"]["category"]} | (no evidence yet) | | | | |')
        continue
    e = json.load(open(f))
    cov = e['coverage']
    b = cov.get('bounded', {})
    nb = len(b.get('clauses', [])) if isinstance(b.get('clauses'), list) else b.get('clauses', '')
    out.append(f"| {pid} | {e['level']} | {cov['discharged']}/{cov['obligations']} | {cov.get('discharged_by_backend', '')} | {nb} ({b.get('evaluations', 0)}) | "
               f"{cov.get('vacuity_covers', {}).get('ok', 0)}/{cov.get('vacuity_covers', {}).get('total', 0)} | {e.get('wall_s', '')} |")
out.append('')
out.append('#### 7.B Independently seeded changes (sub-agents given only the property text) and what reports them\n')
out.append('| seeded change | needs, to manifest | result | reported by |')
out.append('|---------------|--------------------|--------|-------------|')
for d in sorted(glob.glob(os.path.join(HERE, 'seeded', '*', 'meta.json'))):
    m = json.load(open(d))
    out.append(f"| {m['id']} | {m['needs_to_manifest']} | {m['check_result']} | {m['caught_by']} |")
out.append('')
out.append('#### 7.C Self-test mutants (`./vcheck selftest`; text-anchored edits applied to a scratch copy, every one must yield a VIOLATION)\n')
by = {}
for m in MUTANTS:
    by.setdefault(m['prop'], []).append(m['name'].split('.', 1)[1])
out.append('| property | mutants | names |')
out.append('|----------|---------|-------|')
for p in sorted(by):
    out.append(f"| {p} | {len(by[p])} | {', '.join(by[p])} |")
out.append('')
out.append('#### 7.D Defects of the pinned tree found by the checks and repaired (`known_findings.txt`)\n')
for l in open(os.path.join(HERE, 'known_findings.txt')):
    if l.startswith('fixed:') or l.startswith('finding:'):
        out.append('* ' + l.strip())
out.append('')
block = '\n'.join(out)
p = os.path.join(HERE, 'DESIGN.md')
s = open(p).read()
b0, b1 = '<!-- BEGIN GENERATED -->', '<!-- END GENERATED -->'
if b0 not in s:
    print('markers missing'); sys.exit(1)
s = s[:s.index(b0) + len(b0)] + '\n' + block + '\n' + s[s.index(b1):]
open(p, 'w').write(s)
print('tables written:', len(out), 'lines')
