#!/bin/bash
# tools/rerun_seeded.sh [jobs] : re-run every kept seeded change on a scratch copy of /repo; prints one line per change (expected: exit=1)
cd "$(dirname "$0")/.."
J=${1:-3}
one() {
  d=$1; id=$(basename $d); prop=$(python3 -c "import json; print(json.load(open('$d/meta.json'))['breaks_property'])")
  S=$(mktemp -d /tmp/vscratch_XXXXXX); cp -r /repo/opticomlib "$S/opticomlib"
  ( cd "$S" && git init -q . && git apply "/verif/$d/patch.diff" 2>/dev/null ) || { echo "$id patch-does-not-apply"; rm -rf "$S"; return; }
  out=$(VERIF_REPO="$S" ./vcheck $prop --no-evidence 2>&1); e=$?
  echo "$id exit=$e $(echo "$out" | grep -c '^VIOLATION') violation lines"
  rm -rf "$S"
}
export -f one
ls -d seeded/*/ | xargs -P $J -I{} bash -c 'one {}'
