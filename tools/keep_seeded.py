#!/usr/bin/env python3
"""tools/keep_seeded.py <id> <property> <patch> <demo> <needs> <caught_by> [<status>] : store a confirmed seeded change under /verif/seeded/<id>/"""
import json, os, shutil, sys
sid, prop, patch, demo, needs, caught = sys.argv[1:7]
status = sys.argv[7] if len(sys.argv) > 7 else 'caught'
d = os.path.join(os.path.dirname(os.path.dirname(os.path.abspath(__file__))), 'seeded', sid)
os.makedirs(d, exist_ok=True)
shutil.copy(patch, os.path.join(d, 'patch.diff'))
shutil.copy(demo, os.path.join(d, 'demo.py'))
json.dump({'id': sid, 'breaks_property': prop, 'needs_to_manifest': needs, 'author': 'independent sub-agent given only the property text and a scratch worktree',
           'confirmed': 'applied to /repo with git apply: existing 49 tests pass, demo exits 0 on the original tree and non-zero on the changed tree; then undone with git checkout',
           'ran': f'tools/try_patch.sh seeded/{sid}/patch.diff {prop} seeded/{sid}/demo.py', 'check_result': status, 'caught_by': caught}, open(os.path.join(d, 'meta.json'), 'w'), indent=1)
print('kept', d)
