"""C03 - A noise-free link built from the library's blocks returns the transmitted bits.

A system-level property: what contracts can carry is the chain of per-block contracts and the lemma that composes them; the one
block whose *values* are outside the verifier's reach is the receiver's Bessel filter (sosfiltfilt, an uninterpreted linear operator
here, see C11), together with Gaussian pulse shaping (convolution), the fibre (C07) and the eye-based estimators (C17).

Proved for all bit sequences, sps, amplitudes and device parameters (real DAC, MZM, PD, SAMPLER, electrical_signal.__gt__ and both
BER_analizer functions executed symbolically in sequence):
  align     the photocurrent handed to the receiver filter by  bits -> DAC(nrz) -> MZM(CW carrier) -> PD(noise sources off)  is
            slot-aligned and two-level: samples anywhere in slots carrying equal bits are equal, its length is n*sps, and the PD's
            noise component is identically zero;
  decide    sampling at gv.sps//2 and comparing with a threshold lying between the two received levels returns exactly the
            transmitted bits, under the stated hypothesis that the receiver filter is transparent at the slot centres
            (filter output = filter input at k*sps + sps//2) - the hypothesis that the bounded clause checks numerically;
  counter   ook.BER_analizer('counter') and ppm.BER_analizer('counter') return (number of differing positions)/n: 0 for equal
            sequences and k/n for k flipped bits, also for a longer Tx (truncated to len(Rx)).
Bounded: the whole link on the real code (both pulse shapes, fibre / dispersive element, both layouts, odd sps, long runs, single
symbols), ook.DSP and ppm.DSP (hard, soft) with the counters.
"""
import z3
from pyvc.vc import clause, mval
from pyvc.values import *
from pyvc import opaque
from pyvc import reduce as red
from .common import *
from .common import _vars_of

LEVEL = 'other'
LEVEL_TEXT = ('Composition lemma proved, filter numerics bounded: for every bit sequence, sps, drive, carrier amplitude and device parameters the photocurrent of DAC(nrz)->MZM->PD (noise off) is slot-aligned two-level with zero noise; '
              'SAMPLER at sps//2 followed by > threshold returns exactly the bits whenever the threshold lies between the two levels and the receiver filter is transparent at the slot centres; both BER counters return (#differences)/n '
              '(0 for equal sequences, k/n for k flips). That the real Bessel filter (BW >= 0.7R), Gaussian shaping, a short fibre / dispersive element and the eye-based ook.DSP / ppm.DSP keep the decisions exact is a bounded check on the real code.')
LEVEL_NOTE = 'receiver filter uninterpreted (hypothesis "transparent at slot centres" is stated in the obligation and checked only numerically); Gaussian pulses, fibre, GET_EYE-based thresholds: bounded only; floats as reals'
EXPLANATION = LEVEL_TEXT
TECHNIQUE = 'VCs from the real AST of DAC, MZM, PD, SAMPLER, __gt__, BER_analizer executed in sequence (z3); receiver filter uninterpreted; end-to-end decisions by bounded run-time checks of the real chain'
BOUNDED_RULE = ('real chain bits->DAC->MZM->[FIBER|DM]->PD->SAMPLER->midway threshold on random/PRBS/alternating/long-run/single-symbol sequences, sps in {4,5,8,16,33,64}, R in {1,10} GHz, nrz/gaussian, 1/2 pol, several Vpi/loss/ER/P/r/R_load/BW; '
                'ook.DSP on >= 32 random/PRBS slots; ppm.DSP hard/soft for M in {2,4,8,16}; counters with k flips; distinct = distinct (pattern, sps, shape, layout, medium, parameters)')


def native_link_check():
    import numpy as np, warnings
    warnings.simplefilter('ignore')
    from opticomlib.typing import gv, optical_signal, binary_sequence
    from opticomlib.devices import DAC, MZM, PD, SAMPLER
    import opticomlib.ook as ook, opticomlib.ppm as ppm
    rng = np.random.default_rng(0)
    bad = []
    for sps in (4, 5, 16):
        for npol in (1, 2):
            gv(sps=sps, R=10e9)
            bits = rng.integers(0, 2, 48)
            bits[:2] = (0, 1)
            v = DAC(bits, Vout=5.0, pulse_shape='nrz')
            cw = optical_signal(np.ones(v.len()) * np.sqrt(1e-3), n_pol=npol)
            y = PD(MZM(cw, v, bias=5.0, Vpi=5.0), BW=7.5e9, include_noise='ase-only', i_dark=0)
            s = SAMPLER(y, sps // 2)
            x = s.signal if s.noise is None else s.signal + s.noise
            out = s > (x.max() + x.min()) / 2
            if not np.array_equal(np.asarray(out.data).astype(int), bits):
                bad.append(['link', sps, npol])
            fl = bits.copy()
            fl[[3, 7, 11]] ^= 1
            for mod in (ook, ppm):
                if mod.BER_analizer('counter', Tx=binary_sequence(bits), Rx=binary_sequence(fl)) != 3 / 48 or mod.BER_analizer('counter', Tx=binary_sequence(bits), Rx=out) != 0:
                    bad.append(['counter', mod.__name__])
    gv.clean()
    return not bad, bad


def rep(m):
    st, out = native(native_link_check, 200)
    return {'confirmed': st != 'ok' or not out[0], 'inputs': 'random 48-bit sequences, sps in {4,5,16}, 1/2 polarisations, nrz, Vpi=5, P=1 mW, BW=0.75R; three flipped bits for the counters', 'observed': out}


def _apps_of(t, decl):
    out, seen, st = [], set(), [t]
    while st:
        x = st.pop()
        if x.get_id() in seen:
            continue
        seen.add(x.get_id())
        if z3.is_app(x) and x.decl().eq(decl):
            out.append(x)
        st.extend(x.children())
    return out


def _resolve_ites(t, hyps, timeout=2000):
    """replace If-conditions that the hypotheses decide by their value (each replacement backed by an unsat answer)"""
    conds, seen, st = [], set(), [t]
    while st:
        x = st.pop()
        if x.get_id() in seen:
            continue
        seen.add(x.get_id())
        if z3.is_app(x) and x.decl().kind() == z3.Z3_OP_ITE:
            conds.append(x.arg(0))
        st.extend(x.children())
    sub = []
    for c_ in conds:
        for val in (True, False):
            s = z3.Solver()
            s.set('timeout', timeout)
            s.add(*hyps)
            s.add(z3.Not(c_) if val else c_)
            if s.check() == z3.unsat:
                sub.append((c_, z3.BoolVal(val)))
                break
    return z3.simplify(z3.substitute(t, sub)) if sub else t


def _mk_link(npol):
    @clause(f'C03.link[{npol}pol]', min_obl=8)
    def f(K):
        n, sps, i1, i2, mi, k0, k1 = z3.Ints('n sps i1 i2 m k0 k1')
        Vout, bias, bm, Vpi, loss, ER, BW, r, RL, thr = z3.Reals('Vout bias bias_m Vpi loss_dB ER_dB BW r R_load thr')
        ar, ai, br_, bi_ = z3.Reals('cw_xr cw_xi cw_yr cw_yi')
        fd, fm, fp, fs_ = fn(K, 'devices.DAC'), fn(K, 'devices.MZM'), fn(K, 'devices.PD'), fn(K, 'devices.SAMPLER')
        pre = [n >= 1, sps >= 1, i1 >= 0, i1 < n * sps, i2 >= 0, i2 < n * sps, mi >= 0, mi < n, k0 >= 0, k0 < n, k1 >= 0, k1 < n,
               Vout < 48, Vout > -48, bias < 48, bias > -48, Vpi > 0, loss >= 0, ER >= 10, BW > 0, r > 0, r <= 1, RL > 0]

        def run(ex):
            g = mk_gv(ex, sps=sps)
            b = mk_binseq(ex, 'bits', n)
            v = ex.call_fn(fd, [b], {'Vout': Vout, 'bias': bias, 'pulse_shape': 'nrz'})
            if npol == 1:
                cw_s = Arr([n * sps], lambda ix: Cx(ar, ai), 'complex')
            else:
                cw_s = Arr([2, n * sps], lambda ix: s_ite(tonum(ix[0]) == 0, Cx(ar, ai), Cx(br_, bi_)) if not isinstance(conc(ix[0]), int) else (Cx(ar, ai) if conc(ix[0]) == 0 else Cx(br_, bi_)), 'complex')
            cw = Obj('optical_signal', signal=cw_s, noise=None, n_pol=npol, execution_time=0)
            m = ex.call_fn(fm, [cw, v], {'bias': bm, 'Vpi': Vpi, 'loss_dB': loss, 'ER_dB': ER})
            y = ex.call_fn(fp, [m, BW], {'r': r, 'R_load': RL, 'include_noise': 'ase-only', 'i_dark': 0})
            s = ex.call_fn(fs_, [y, s_floordiv(g.f['sps'], 2, ex)], {})
            gt = ex.get_method(s, '__gt__')
            out = ex.call(gt, [thr], {})
            return b, v, y, s, out
        for p in K.paths(run, pre):
            sig = p.signature()
            if p.kind != 'ret':
                K.prove(f'noraise[{sig}]', p.pc, False, replay=rep, words=f'the chain accepts every bit sequence and in-range device parameters (raised {p.value}: {getattr(p, "msg", None)})')
                continue
            b, v, y, s, out = p.value
            ysig = y.f['signal']
            app = opaque.find_app(p.ex, ysig)
            if app is None or app.op != 'L':
                K.fail(f'pd_filter[{sig}]', 'PD output is not the receiver filter applied to a photocurrent')
                continue
            inp = app.inp
            bits = b.f['data']
            Bf = bits.fun
            K.prove(f'align.len[{sig}]', p.pc, z3.And(tonum(inp.shape[0]) == n * sps, tonum(ysig.shape[0]) == n * sps), replay=rep, words='n*sps photocurrent samples')
            # alignment: inp[i] = F(bits[i div sps]) with F free of the sample index
            E1 = _resolve_ites(z3.simplify(toreal(inp.elem((i1,)))), [n >= 1, sps >= 1, i1 >= 0, i1 < n * sps])
            apps1 = _apps_of(E1, Bf)
            okargs = bool(apps1)
            for q, a_ in enumerate(apps1):
                okargs = K.prove(f'align.slot_bit[{sig},{q}]', [sps >= 1, i1 >= 0, i1 < n * sps], a_.arg(0) == i1 / sps, replay=rep, words='the only transmitted bit a photocurrent sample depends on is the bit of its own slot') and okargs
            beta = z3.Bool('beta')
            F1 = z3.simplify(z3.substitute(E1, [(a_, beta) for a_ in apps1])) if apps1 else E1
            free = _vars_of([F1]) & {'i1', 'i2', 'm', 'k0', 'k1'}
            if apps1 and not free:
                K.ok(f'align.two_level[{sig}]', 'photocurrent sample = F(bit of its slot), F independent of the sample index: slot-aligned two-level waveform')
            else:
                K.prove(f'align.two_level[{sig}]', p.pc, False, replay=rep, words=f'photocurrent sample = F(bit of its slot) with F independent of the sample index (found dependence on {sorted(free)}; bit terms {len(apps1)}; F = {str(F1)[:300]})')
            # noise off
            nz = y.f['noise']
            nz_zero = None
            if nz is not None:
                appN = opaque.find_app(p.ex, nz)
                if appN is None or appN.op != 'L':
                    K.prove(f'align.noise_off[{sig}]', p.pc, z3.And(tonum(nz.shape[0]) == n * sps, eq_scalar(nz.elem((i1,)), 0)), replay=rep, words='with the noise sources off the PD noise component is identically zero')
                else:
                    K.prove(f'align.noise_off.input[{sig}]', p.pc, z3.And(tonum(appN.inp.shape[0]) == n * sps, eq_scalar(appN.inp.elem((i1,)), 0)), replay=rep,
                            words='with the noise sources off the noise current handed to the receiver filter is identically zero')
                    lf = opaque.linear_fact(p.ex, appN, [(2, appN)])          # L(0) = L(2*0) = 2 L(0)
                    if lf is None:
                        K.undecided(f'align.noise_off[{sig}]', 'linearity instance not established')
                    else:
                        K.prove(f'align.noise_off[{sig}]', list(p.pc) + [lf(i1)], eq_scalar(nz.elem((i1,)), 0), replay=rep, words='... and so is the filtered noise component (the filter is linear)')
                        nz_zero = lambda ix: z3.substitute(z3.And(lf(i1), eq_scalar(nz.elem((i1,)), 0)), (i1, ix))
            else:
                K.ok(f'align.noise_off[{sig}]', 'no noise component')
            # decision
            c = mi * sps + sps / 2
            K.prove(f'centre[{sig}]', [sps >= 1, n >= 1, mi >= 0, mi < n], z3.And(c / sps == mi, c >= 0, c < n * sps), words='slot centre k*sps + sps//2 lies in slot k of the record')
            ok = out is not None and getattr(out, 'cls', None) == 'binary_sequence'
            if not ok:
                K.fail(f'decide.type[{sig}]', 'the comparison does not return a binary_sequence')
                continue
            od = out.f['data']
            K.prove(f'decide.len[{sig}]', p.pc, tonum(od.shape[0]) == n, replay=rep, words='one decision per transmitted bit')
            if not (okargs and apps1 and not free):
                K.undecided(f'decide.bits[{sig}]', 'alignment not established')
                continue
            LT, LF = z3.simplify(z3.substitute(F1, (beta, z3.BoolVal(True)))), z3.simplify(z3.substitute(F1, (beta, z3.BoolVal(False))))
            ys_c = toreal(ysig.elem((c,)))
            od_m = tonum(od.elem((mi,)))
            K.prove(f'levels_nonneg[{sig}]', [r > 0, RL > 0], z3.And(LT >= 0, LF >= 0), algebra=True, replay=rep, words='the received levels are photocurrents times a load: non-negative (so the |x| > |thr| comparison of __gt__ is a plain comparison)')
            for val in (True, False):
                lT, lF = z3.Reals('level1 level0')            # the two received levels F(1), F(0), generalised to arbitrary reals
                hyps = [sps >= 1, n >= 1, mi >= 0, mi < n, Bf(mi) == val, ys_c == (lT if val else lF), lF >= 0, lF < thr, thr < lT]
                if nz is not None:
                    if nz_zero is None:
                        continue
                    hyps.append(nz_zero(c))
                K.prove(f'decide.bits[{sig},bit={int(val)}]', hyps, od_m == (1 if val else 0), replay=rep,
                        words='decision k = transmitted bit k, given a threshold between the two received levels and a receiver filter transparent at the slot centre (output = input there)')
            K.cover(f'cover.hyp[{sig}]', [LF < thr, thr < LT, Vpi > 0, ER >= 10, loss >= 0, r > 0, RL > 0])
            bad = frame_violations(p)
            (K.fail if bad else K.ok)(f'frame[{sig}]', '; '.join(bad) if bad else 'bits and gv untouched')
    f.__name__ = f'link_{npol}'
    return f


for _n in (1, 2):
    globals()[f'link_{_n}'] = _mk_link(_n)


def _mk_counter(modname):
    @clause(f'C03.counter[{modname}]', min_obl=6)
    def f(K):
        n, extra, kf = z3.Ints('n extra kflips')
        fb = fn(K, f'{modname}.BER_analizer')
        pre = [n >= 1, extra >= 0]
        for form in ('binseq', 'arrays'):
            for case in ('flips', 'equal', 'longer_tx'):
                def run(ex):
                    mk_gv(ex)
                    tx = bits_arr('tx', n + extra if case == 'longer_tx' else n)
                    fl = bits_arr('flip', n)
                    te, fe = tx.elem, fl.elem
                    if case == 'equal':
                        rx = Arr([n], lambda ix: te(ix), 'int', np_dtype='uint8')
                    else:
                        rx = Arr([n], lambda ix: z3.If(tonum(te(ix)) != tonum(fe(ix)), z3.IntVal(1), z3.IntVal(0)), 'int', np_dtype='uint8')   # tx xor flip
                    T = Obj('binary_sequence', data=tx, execution_time=0) if form == 'binseq' else tx
                    R = Obj('binary_sequence', data=rx, execution_time=0) if form == 'binseq' else rx
                    res = ex.call_fn(fb, ['counter'], {'Tx': T, 'Rx': R})
                    D = Arr([n], lambda ix: z3.If(tonum(te(ix)) != tonum(rx.elem(ix)), z3.IntVal(1), z3.IntVal(0)), 'int')        # [Tx[i] != Rx[i]]
                    lem = red.scale_lemma(ex, D, fl, 0 if case == 'equal' else 1)        # element-wise: D = flip (D = 0 for equal sequences)
                    return fl, res, red.reduce_(ex, 'sum', fl, 0), red.reduce_(ex, 'sum', D, 0), lem
                for p in K.paths(run, pre):
                    sig = f'{form},{case}][{p.signature()}'
                    if p.kind != 'ret':
                        K.prove(f'noraise[{sig}]', p.pc, False, replay=rep, words='counter mode accepts two sequences of which Tx is at least as long as Rx')
                        continue
                    fl, res, nflips, ndiff, lem = p.value
                    K.prove(f'count[{sig}]', p.pc, toreal(res) * z3.ToReal(n) == toreal(ndiff), replay=rep, words='BER_analizer(counter) * n = number of positions where Tx[:len(Rx)] and Rx differ')
                    if lem is None:
                        K.undecided(f'flips[{sig}]', 'element-wise lemma not established')
                    elif case == 'equal':
                        K.prove(f'zero[{sig}]', list(p.pc) + [lem], toreal(res) == 0, replay=rep, words='BER_analizer(counter) = 0 for identical sequences')
                    else:
                        K.prove(f'k_over_n[{sig}]', list(p.pc) + [lem], toreal(res) * z3.ToReal(n) == toreal(nflips), replay=rep,
                                words='BER_analizer(counter) = (number of flipped positions)/n' + (' with Tx truncated to len(Rx)' if case == 'longer_tx' else ''))
    f.__name__ = f'counter_{modname}'
    return f


for _m in ('ook', 'ppm'):
    globals()[f'counter_{_m}'] = _mk_counter(_m)


@clause('C03.bounded', min_obl=1)
def bounded(K):
    thorough = K.tier == 'thorough'
    seed = K.seed

    def work():
        import numpy as np, warnings, signal
        warnings.simplefilter('ignore')
        from opticomlib.typing import gv, optical_signal, binary_sequence
        from opticomlib.devices import DAC, MZM, PD, FIBER, DM, SAMPLER, PRBS
        from opticomlib.ppm import PPM_ENCODER
        import opticomlib.ook as ook, opticomlib.ppm as ppm

        class TO(Exception):
            pass

        def alarm(s_, f_):
            raise TO()
        signal.signal(signal.SIGALRM, alarm)
        rng = np.random.default_rng(seed)

        def chain(bits, sps, R, shape, npol, medium, Vpi, loss, ER, P, r, RL, BWf):
            gv(sps=sps, R=R)
            v = DAC(np.asarray(bits), Vout=Vpi, pulse_shape=shape)
            cw = optical_signal(np.ones(v.len()) * np.sqrt(P), n_pol=npol)
            m = MZM(cw, v, bias=Vpi, Vpi=Vpi, loss_dB=loss, ER_dB=ER)
            T2 = (1e12 / R) ** 2                                     # slot period squared [ps^2]
            if medium == 'fiber':
                m = FIBER(m, length=0.009 * T2 / 20.0, alpha=0.0, beta_2=-20.0, beta_3=0, gamma=0)     # |beta2 L| = 0.9% of T^2
            elif medium == 'dm':
                m = DM(m, 0.009 * T2)
            return PD(m, BW=BWf * R, r=r, R_load=RL, include_noise='ase-only', i_dark=0)

        def decide(y, sps):
            s = SAMPLER(y, sps // 2)
            x = s.signal if s.noise is None else s.signal + s.noise
            return s > (x.max() + x.min()) / 2
        pats = {'random': lambda n: rng.integers(0, 2, n), 'prbs': lambda n: np.asarray(PRBS(order=7).data)[:n], 'alternating': lambda n: np.arange(n) % 2,
                'single1': lambda n: (np.arange(n) == n // 2).astype(int), 'single0': lambda n: (np.arange(n) != n // 3).astype(int),
                'runs': lambda n: np.repeat(rng.integers(0, 2, n // 8 + 1), 8)[:n]}
        bad, n_eval, seen = [], 0, set()
        sps_list = (4, 5, 8, 16, 33, 64) if thorough else (4, 5, 16, 33)
        devs = [(5.0, 0.0, 30.0, 1e-3, 1.0, 50.0, 0.75)]
        devs += [(3.3, 3.0, 10.0, 5e-3, 0.7, 1000.0, 0.7), (8.0, 6.0, 20.0, 1e-4, 0.5, 50.0, 1.5)] if thorough else [(3.3, 3.0, 10.0, 5e-3, 0.7, 1000.0, 0.7)]
        # a reduced grid in descending order of sps runs before and after the full ascending grid: a link must not depend on the links simulated before it in the same process
        for sps, pass2 in [(q, True) for q in reversed(sps_list)] + [(q, False) for q in sps_list] + [(q, True) for q in reversed(sps_list)]:
            for R in ((1e9, 10e9) if thorough else (10e9,)):
                for shape in ('nrz', 'gaussian'):
                    for npol in (1, 2):
                        for medium in (None, 'dm', 'fiber'):
                            for pn, pf in pats.items():
                                if pass2 and (pn != 'random' or medium is not None or npol != 1):
                                    continue
                                for dv in (devs if pn in ('random', 'runs') and not pass2 else devs[:1]):
                                    nb = 64
                                    bits = np.asarray(pf(nb)).astype(int)
                                    if bits.min() == bits.max():
                                        bits[0] = 1 - bits[0]
                                    n_eval += 1
                                    seen.add((pn, sps, R, shape, npol, medium, dv, pass2))
                                    case = {'pattern': pn, 'sps': sps, 'R': R, 'shape': shape, 'npol': npol, 'medium': medium, 'Vpi,loss,ER,P,r,R_load,BW/R': dv, 'order': 'descending sps (after links with larger sps)' if pass2 else 'ascending sps'}
                                    signal.alarm(30)
                                    try:
                                        out = decide(chain(bits, sps, R, shape, npol, medium, *dv), sps)
                                        signal.alarm(0)
                                        got = np.asarray(out.data).astype(int)
                                        if got.shape != bits.shape or not np.array_equal(got, bits):
                                            bad.append(dict(case, problem=f'{int(np.sum(got != bits)) if got.shape == bits.shape else "length"} decision errors', bits=bits.tolist()[:16]))
                                    except TO:
                                        bad.append(dict(case, problem='no result within 30 s'))
                                    except Exception as e:
                                        signal.alarm(0)
                                        bad.append(dict(case, problem=f'{type(e).__name__}: {e}'))
        n_link = n_eval
        # packaged decision routines
        for sps in ((4, 8, 16, 33) if thorough else (8, 33)):
            for shape in ('nrz', 'gaussian'):
                for npol in (1, 2):
                    for nb in ((32, 64, 256) if thorough else (32, 128)):
                        for src in ('random', 'prbs'):
                            gv(sps=sps, R=10e9)
                            bits = rng.integers(0, 2, nb) if src == 'random' else np.asarray(PRBS(order=7).data)[:nb].astype(int)
                            if bits.min() == bits.max():
                                continue
                            nb = len(bits)                     # PRBS7 has 127 bits
                            n_eval += 1
                            seen.add(('ook.DSP', sps, shape, npol, nb, src))
                            case = {'routine': 'ook.DSP', 'sps': sps, 'shape': shape, 'npol': npol, 'n': nb, 'source': src}
                            signal.alarm(120)
                            try:
                                np.random.seed(1)
                                y = chain(bits, sps, 10e9, shape, npol, None, *devs[0])
                                out, eye_, th = ook.DSP(y)
                                signal.alarm(0)
                                fl = bits.copy()
                                kf = 1 + (n_eval % 5)
                                fl[rng.choice(nb, kf, replace=False)] ^= 1
                                b0 = ook.BER_analizer('counter', Tx=binary_sequence(bits), Rx=out)
                                bk = ook.BER_analizer('counter', Tx=binary_sequence(fl), Rx=out)
                                if not np.array_equal(np.asarray(out.data).astype(int), bits) or b0 != 0 or abs(bk - kf / nb) > 1e-15:
                                    bad.append(dict(case, problem=f'decisions differ in {int(np.sum(np.asarray(out.data) != bits))} positions; counter {b0}, with {kf} flips {bk}'))
                            except TO:
                                bad.append(dict(case, problem='no result within 120 s'))
                            except Exception as e:
                                signal.alarm(0)
                                bad.append(dict(case, problem=f'{type(e).__name__}: {e}'))
        for M in (2, 4, 8, 16):
            for sps in ((4, 8, 16, 33) if thorough else (8, 33)):
                for shape in ('nrz', 'gaussian'):
                    for dec in ('soft', 'hard'):
                        gv(sps=sps, R=10e9)
                        k = int(np.log2(M))
                        data = rng.integers(0, 2, k * 32)
                        n_eval += 1
                        seen.add(('ppm.DSP', M, sps, shape, dec))
                        case = {'routine': 'ppm.DSP', 'M': M, 'sps': sps, 'shape': shape, 'decision': dec}
                        signal.alarm(120)
                        try:
                            np.random.seed(1)
                            enc = PPM_ENCODER(data, M)
                            y = chain(np.asarray(enc.data).astype(int), sps, 10e9, shape, 1, None, *devs[0])
                            out = ppm.DSP(y, M, decision=dec)
                            signal.alarm(0)
                            fl = data.copy()
                            kf = 1 + (n_eval % 5)
                            fl[rng.choice(len(data), kf, replace=False)] ^= 1
                            b0 = ppm.BER_analizer('counter', Tx=data, Rx=out)
                            bk = ppm.BER_analizer('counter', Tx=fl, Rx=out)
                            if not np.array_equal(np.asarray(out.data).astype(int), data) or b0 != 0 or abs(bk - kf / len(data)) > 1e-15:
                                bad.append(dict(case, problem=f'decoded data differ in {int(np.sum(np.asarray(out.data) != data))} positions; counter {b0}, with {kf} flips {bk}'))
                        except TO:
                            bad.append(dict(case, problem='no result within 120 s'))
                        except Exception as e:
                            signal.alarm(0)
                            bad.append(dict(case, problem=f'{type(e).__name__}: {e}'))
        # the packaged routines with the detector's default dark current (a constant offset carried in the noise component) at very low
        # launch power, where that offset is comparable to the signal
        def chain_dark(bits, sps, shape, P):
            gv(sps=sps, R=10e9)
            v = DAC(np.asarray(bits), Vout=5.0, pulse_shape=shape)
            cw = optical_signal(np.ones(v.len()) * np.sqrt(P), n_pol=1)
            return PD(MZM(cw, v, bias=5.0, Vpi=5.0, loss_dB=0.0, ER_dB=30.0), BW=7.5e9, include_noise='ase-only')        # i_dark left at its default
        for P in (1e-3, 1e-8):
            for shape in ('nrz', 'gaussian'):
                bits = rng.integers(0, 2, 128)
                bits[:2] = (0, 1)
                n_eval += 1
                seen.add(('dark', P, shape))
                case = {'routine': 'ook.DSP / ppm.DSP hard with default i_dark', 'P_W': P, 'shape': shape}
                signal.alarm(240)
                try:
                    np.random.seed(1)
                    out, _, _ = ook.DSP(chain_dark(bits, 16, shape, P))
                    data = rng.integers(0, 2, 64)
                    outp = ppm.DSP(chain_dark(np.asarray(PPM_ENCODER(data, 4).data).astype(int), 16, shape, P), 4, decision='hard')
                    signal.alarm(0)
                    e1, e2 = int(np.sum(np.asarray(out.data).astype(int) != bits)), int(np.sum(np.asarray(outp.data).astype(int) != data))
                    if e1 or e2:
                        bad.append(dict(case, problem=f'ook.DSP {e1} errors, ppm.DSP hard {e2} errors'))
                except TO:
                    bad.append(dict(case, problem='no result within 240 s'))
                except Exception as e:
                    signal.alarm(0)
                    bad.append(dict(case, problem=f'{type(e).__name__}: {e}'))
        # counters on long sequences with many flipped bits (k beyond any 8/16-bit accumulator)
        for mod in (ook, ppm):
            for nb in (2048, 70000):
                tx = rng.integers(0, 2, nb).astype(np.uint8)
                for kf in (0, 1, 255, 256, 300, nb // 2, nb) if nb == 2048 else (65535, 65536, 66000):
                    rx = tx.copy()
                    rx[rng.choice(nb, kf, replace=False)] ^= 1
                    n_eval += 1
                    seen.add(('counter', mod.__name__, nb, kf))
                    for form in ('binary_sequence', 'ndarray'):
                        try:
                            got = mod.BER_analizer('counter', Tx=binary_sequence(tx) if form == 'binary_sequence' else tx, Rx=binary_sequence(rx) if form == 'binary_sequence' else rx)
                            if abs(got - kf / nb) > 1e-15:
                                bad.append({'routine': mod.__name__ + '.BER_analizer(counter)', 'n': nb, 'flipped': kf, 'form': form, 'problem': f'reported {got}, expected {kf / nb}'})
                        except Exception as e:
                            bad.append({'routine': mod.__name__ + '.BER_analizer(counter)', 'n': nb, 'flipped': kf, 'form': form, 'problem': f'{type(e).__name__}: {e}'})
        gv.clean()
        return {'n': n_eval, 'n_link': n_link, 'distinct': len(seen), 'bad': bad[:6], 'nbad': len(bad)}
    st, r = native(work, 6000)
    K.bounded('link_decisions', st == 'ok' and r['nbad'] == 0,
              {'evaluations': r['n'] if st == 'ok' else 0, 'distinct_nontrivial': r['distinct'] if st == 'ok' else 0,
               'bound': ('64-bit sequences (random, PRBS7, alternating, single 1, single 0, runs of 8) x sps in ' + ('{4,5,8,16,33,64}' if thorough else '{4,5,16,33}') + ' x R in ' + ('{1,10}' if thorough else '{10}') +
                         ' GHz x nrz/gaussian x 1/2 pol x {no medium, DM with |beta2 L| = 0.9% T^2, FIBER likewise} x ' + ('3' if thorough else '2') + ' device settings, preceded and followed by random patterns in descending order of sps (history independence); ook.DSP on 32..256 random/PRBS slots; ppm.DSP hard/soft M in {2,4,8,16}; the same routines with the default dark current at 1 mW and 10 nW launch power; counters with 1..5 flips, and on 2048/70000-bit sequences with k in {0,1,255,256,300,n/2,n} / {65535,65536,66000} flips'),
               'samples': [{'pattern': 'runs', 'sps': 33, 'shape': 'gaussian', 'npol': 2, 'medium': 'fiber'}], 'failures': r if st == 'ok' else [st, r]})


def frame_runs(K):
    n = z3.Int('n')
    fb = fn(K, 'ook.BER_analizer')

    def run(ex):
        mk_gv(ex)
        return ex.call_fn(fb, ['counter'], {'Tx': mk_binseq(ex, 'tx', n), 'Rx': mk_binseq(ex, 'rx', n)})
    return [('ook.BER_analizer', run, [n >= 1], None)]
