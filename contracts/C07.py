"""C07 - linear propagation (DM, FIBER with gamma = 0) is an exact all-pass, additive in length.

Under contract (devices.py): DM, FIBER (gamma = 0 instances; the while loop runs exactly once, proved by the executor), through
electrical_signal.__call__, __mul__, w, optical_signal.__init__ (inlined real code).  Over exact complex numbers with fft/ifft
uninterpreted (inverse pair, Parseval) and exp / cos / sin under their textbook axioms.
"""
import z3
from pyvc.vc import clause, mval
from pyvc.values import *
from pyvc import reduce as red, opaque, extern
from .common import *
from .C01 import wf, And_, mk_obj

LEVEL = 'proof'
LEVEL_TEXT = ('Proof over exact complex arithmetic for all lengths (odd/even), one or two polarisations and all D, beta2, beta3, alpha, L: the real DM and FIBER(gamma=0) bodies are executed symbolically; '
              'each polarisation of the output equals ifft(H * fft(input)) with H the documented all-pass / loss filter on w = 2*pi*fftfreq(N)*fs; energy conservation (Parseval), DM(-D) o DM(D) = id, '
              'the group law, FIBER(L, beta2) = DM(beta2*L), span additivity, the exp(-alpha\' L) power law (within 3e-6*alpha*L of 10^(-alpha L/10), the constant 4.343 the code rounds) and retH = applied '
              'filter are discharged. A numeric cross-check on random fields is bounded.')
LEVEL_NOTE = 'fft/ifft axioms (inverse pair, Parseval, row-wise) and exp/cos/sin addition axioms are assumed; floats as reals; what happens to .noise is not part of the statement'
EXPLANATION = LEVEL_TEXT
BOUNDED_RULE = 'random complex fields, odd/even N, both layouts, random D/beta2/beta3/alpha/L, several gv.fs: outputs vs an independent numpy filter, energies, compositions; distinct = distinct (layout, N, parameters)'

LAYOUTS = [(1,), (2,)]


def w_arr(ex, g, N):
    """w = 2*pi*fftfreq(N)*gv.fs as Arr (the specification's frequency grid)"""
    fs = toreal(g.f['fs'])
    return Arr([N], lambda ix: 2 * PI * UF['fftfreq'](tonum(N), tonum(ix[0])) * fs, 'float')


def apply_filter(ex, sig, H):
    """specification: per polarisation ifft(fft(sig) * H)"""
    X = opaque.apply_last_axis(ex, 'fft', (), sig)
    nd = X.ndim
    Xe, He = X.elem, H.elem
    Y = Arr(X.shape, lambda ix: s_mul(Xe(ix), He((ix[-1],))), 'complex')
    return opaque.apply_last_axis(ex, 'ifft', (), Y)


def cis_filter(N, re_fn, im_fn):
    """H[i] = exp(re(i)) * (cos(im(i)) + j sin(im(i)))"""
    def elem(ix):
        a, b = re_fn(ix[0]), im_fn(ix[0])
        m = uf('exp', a) if a is not None else None
        c, s = uf('cos', b), uf('sin', b)
        return Cx(c if m is None else m * c, s if m is None else m * s)
    return Arr([N], elem, 'complex')


def dm_H(w, N, D):
    we = w.elem
    return cis_filter(N, lambda i: None, lambda i: -(toreal(we((i,))) * toreal(we((i,)))) * D * z3.RealVal(Fraction('1e-24')) / 2)


def fiber_H(w, N, L, alpha, b2, b3):
    we = w.elem
    wp = lambda i: toreal(we((i,))) * z3.RealVal(Fraction('1e-12'))
    a = (lambda i: -(alpha / z3.RealVal(Fraction('4.343'))) / 2 * L) if alpha is not None else (lambda i: None)
    return cis_filter(N, a, lambda i: (-(b2 if b2 is not None else 0) * wp(i) * wp(i) / 2 - (b3 if b3 is not None else 0) * wp(i) * wp(i) * wp(i) / 6) * L)


def idx_of(npol, i):
    return (i,) if npol == 1 else (z3.Int('pol'), i)


def pol_hyp(npol):
    return [z3.Int('pol') >= 0, z3.Int('pol') < 2] if npol == 2 else []


def row(a, npol, r):
    return a if npol == 1 else Arr([a.shape[1]], lambda ix: a.elem((r, ix[0])), a.kind)


def native_check():
    import numpy as np
    from opticomlib.typing import optical_signal as O, gv
    from opticomlib.devices import DM, FIBER
    rng = np.random.default_rng(0)
    bad = []
    gv(sps=8, R=10e9)
    for N in (16, 17, 64):
        for shape in ((N,), (2, N)):
            s = rng.normal(size=shape) + 1j * rng.normal(size=shape)
            x = O(s)
            w = 2 * np.pi * np.fft.fftfreq(N) * gv.fs
            D = 37.5
            ref = np.fft.ifft(np.fft.fft(s, axis=-1) * np.exp(-1j * w ** 2 * D * 1e-24 / 2), axis=-1)
            y = DM(x, D)
            ok = np.allclose(y.signal, ref) and np.allclose(DM(y, -D).signal, s) and np.allclose(DM(DM(x, 10.0), 27.5).signal, y.signal)
            L, a, b2, b3 = 12.0, 0.21, -21.0, 0.1
            wp = w * 1e-12
            Hf = np.exp((-(a / 4.343) / 2 - 1j * b2 * wp ** 2 / 2 - 1j * b3 * wp ** 3 / 6) * L)
            z = FIBER(x, L, alpha=a, beta_2=b2, beta_3=b3)
            ok = ok and np.allclose(z.signal, np.fft.ifft(np.fft.fft(s, axis=-1) * Hf, axis=-1)) and np.allclose(FIBER(x, L, beta_2=b2).signal, DM(x, b2 * L).signal)
            ok = ok and np.allclose(FIBER(FIBER(x, 5.0, alpha=a, beta_2=b2, beta_3=b3), 7.0, alpha=a, beta_2=b2, beta_3=b3).signal, z.signal)
            ok = ok and np.allclose(np.sum(np.abs(z.signal) ** 2, axis=-1), np.sum(np.abs(s) ** 2, axis=-1) * 10 ** (-a * L / 10), rtol=1e-4)
            _, H = DM(x, D, retH=True)
            ok = ok and np.allclose(H, np.fft.fftshift(np.exp(-1j * w ** 2 * D * 1e-24 / 2)))
            if not ok or y.signal.shape != s.shape or type(y) is not O:
                bad.append([N, shape])
    gv.clean()
    return not bad, bad


def rep(m):
    st, out = native(native_check, 120)
    return {'confirmed': st != 'ok' or not out[0], 'inputs': 'random complex fields N in {16,17,64}, 1 and 2 polarisations, D=37.5, L=12, alpha=0.21, beta2=-21, beta3=0.1', 'observed': out}


def _mk_dm(npol):
    @clause(f'C07.dm[{npol}pol]', min_obl=8)
    def f(K):
        N, i = z3.Ints('N i')
        D, D2 = z3.Reals('D D2')
        fdm = fn(K, 'devices.DM')
        for noise in (False, True):
            def run(ex):
                g = mk_gv(ex)
                x = mk_osig(ex, 'x', N, npol, noise)
                w = w_arr(ex, g, N)
                spec = apply_filter(ex, x.f['signal'], dm_H(w, N, D))
                y = ex.call_fn(fdm, [x, D], {})
                back = ex.call_fn(fdm, [y, -D], {})
                two = ex.call_fn(fdm, [ex.call_fn(fdm, [x, D], {}), D2], {})
                one = ex.call_fn(fdm, [x, D + D2], {})
                yh, H = ex.call_fn(fdm, [x, D], {'retH': True})
                Hs = extern.np_fftshift(ex, dm_H(w, N, D))
                return x, spec, y, back, two, one, H, Hs
            for p in K.paths(run, [N >= 1, i >= 0, i < N]):
                sig = f'noise={noise}][{p.signature()}'
                if p.kind != 'ret':
                    K.prove(f'noraise[{sig}]', p.pc, False, replay=rep, words='DM accepts every optical signal and real D')
                    continue
                x, spec, y, back, two, one, H, Hs = p.value
                idx = idx_of(npol, i)
                hy = list(p.pc) + pol_hyp(npol)
                K.prove(f'shape[{sig}]', p.pc, And_(wf(y, N)) if y.cls == 'optical_signal' and conc(y.f.get('n_pol')) == npol else False, replay=rep, words='length and polarisation layout preserved')
                K.prove(f'filter[{sig}]', hy, eq_scalar(y.f['signal'].elem(idx), spec.elem(idx)), replay=rep,
                        words='DM(x, D).signal[p] = ifft(fft(x.signal[p]) * exp(-j w^2 D 1e-24 / 2)),  w = 2 pi fftfreq(N) fs')
                K.prove(f'inverse[{sig}]', hy, eq_scalar(back.f['signal'].elem(idx), x.f['signal'].elem(idx)), replay=rep, words='DM(-D) undoes DM(D)')
                K.prove(f'group[{sig}]', hy, eq_scalar(two.f['signal'].elem(idx), one.f['signal'].elem(idx)), replay=rep, words='DM(D2) after DM(D) equals DM(D + D2)')
                K.prove(f'retH[{sig}]', p.pc, z3.And(tonum(H.shape[0]) == N, eq_scalar(H.elem((i,)), Hs.elem((i,)))) if isinstance(H, Arr) and H.ndim == 1 else False, replay=rep,
                        words='the response returned with retH is the (fftshift-ed) filter actually applied')
                for r_ in range(npol):
                    a_out, a_in = opaque.chain_apps(p.ex, row(y.f['signal'], npol, r_), row(x.f['signal'], npol, r_))
                    facts = opaque.parseval_facts(p.ex, [a for a in (a_out, a_in) if a is not None])
                    K.prove(f'unitary[{sig},pol{r_}]', list(p.pc) + facts, toreal(opaque.sumsq(p.ex, row(y.f['signal'], npol, r_))) == toreal(opaque.sumsq(p.ex, row(x.f['signal'], npol, r_))), replay=rep,
                            words='DM conserves the energy of each polarisation exactly (|H| = 1 and Parseval)')
                bad = purity_violations(p, y)
                (K.fail if bad else K.ok)(f'frame[{sig}]', '; '.join(bad) if bad else 'input untouched, fresh output')
        # non-optical input
        def run_t(ex):
            mk_gv(ex)
            return ex.call_fn(fdm, [mk_esig(ex, 'e', N), D], {})
        for p in K.paths(run_t, [N >= 1]):
            (K.ok if p.kind == 'raise' and p.value == 'TypeError' else K.fail)(f'type[{p.signature()}]', f'electrical input: {p.kind} {p.value}')
    f.__name__ = f'dm_{npol}'
    return f


def _mk_fiber(npol):
    @clause(f'C07.fiber[{npol}pol]', min_obl=7)
    def f(K):
        N, i = z3.Ints('N i')
        L, L2, al, b2, b3 = z3.Reals('L L2 alpha beta2 beta3')
        ff, fdm = fn(K, 'devices.FIBER'), fn(K, 'devices.DM')
        pre = [N >= 1, i >= 0, i < N, L > 0, L2 > 0, al >= 0]
        kw = lambda: {'alpha': al, 'beta_2': b2, 'beta_3': b3, 'gamma': 0}

        def run(ex):
            g = mk_gv(ex)
            x = mk_osig(ex, 'x', N, npol, False)
            w = w_arr(ex, g, N)
            spec = apply_filter(ex, x.f['signal'], fiber_H(w, N, L, al, b2, b3))
            y = ex.call_fn(ff, [x, L], kw())
            spans = ex.call_fn(ff, [ex.call_fn(ff, [x, L], kw()), L2], kw())
            one = ex.call_fn(ff, [x, L + L2], kw())
            return x, spec, y, spans, one
        # beta2 = beta3 = 0 takes the closed-form branch (pure loss): covered by the clause `loss_only` below
        for p in K.paths(run, pre + [z3.Or(b2 != 0, b3 != 0)]):
            sig = p.signature()
            if p.kind != 'ret':
                K.prove(f'noraise[{sig}]', p.pc, False, replay=rep, words='FIBER(gamma=0) accepts every field, L > 0, alpha >= 0')
                continue
            x, spec, y, spans, one = p.value
            idx = idx_of(npol, i)
            hy = list(p.pc) + pol_hyp(npol)
            K.prove(f'shape[{sig}]', p.pc, And_(wf(y, N)) if y.cls == 'optical_signal' and conc(y.f.get('n_pol')) == npol else False, replay=rep, words='length and polarisation layout preserved')
            K.prove(f'linear[{sig}]', hy, eq_scalar(y.f['signal'].elem(idx), spec.elem(idx)), replay=rep,
                    words="FIBER(gamma=0).signal[p] = ifft(exp((-alpha'/2 - j beta2 w'^2/2 - j beta3 w'^3/6) L) fft(A[p])), w' = w 1e-12, alpha' = alpha/4.343 (one full-length step)")
            K.prove(f'spans[{sig}]', hy, eq_scalar(spans.f['signal'].elem(idx), one.f['signal'].elem(idx)), replay=rep, words='two spans in sequence equal one span of the summed length')
            # power law: energy per polarisation times exp(-alpha' L)
            c = uf('exp', -(al / z3.RealVal(Fraction('4.343'))) * L)
            for r_ in range(npol):
                yin = row(y.f['signal'], npol, r_)
                app = opaque.find_app(p.ex, yin)
                if app is None:
                    K.undecided(f'power[{sig},pol{r_}]', 'output is not a registered ifft application')
                    continue
                fx = [a for a in p.ex.apps if a.op == 'fft' and opaque.arrays_equal(p.ex, a.inp, row(x.f['signal'], npol, r_))]
                if not fx:
                    K.undecided(f'power[{sig},pol{r_}]', 'no fft application of the input found')
                    continue
                W2 = Arr(app.inp.shape, lambda ix, a=app: opaque._abs2(a.inp.elem(ix)), 'float')
                X2 = Arr(fx[0].out.shape, lambda ix, a=fx[0]: opaque._abs2(a.out.elem(ix)), 'float')
                facts = opaque.parseval_facts(p.ex, [app, fx[0]])
                lem = red.scale_lemma(p.ex, W2, X2, c)
                if lem is None:
                    K.prove(f'power[{sig},pol{r_}]', p.pc, False, replay=rep, words="|H|^2 = exp(-alpha' L) at every frequency")
                    continue
                K.prove(f'power[{sig},pol{r_}]', list(p.pc) + facts + [lem], toreal(opaque.sumsq(p.ex, yin)) == c * toreal(opaque.sumsq(p.ex, row(x.f['signal'], npol, r_))), replay=rep,
                        words="energy of each polarisation = input energy * exp(-alpha' L), alpha' = alpha/4.343")
            bad = purity_violations(p, y)
            (K.fail if bad else K.ok)(f'frame[{sig}]', '; '.join(bad) if bad else 'input untouched, fresh output')
        # dispersion-free, gamma = 0: the filter is the constant exp(-alpha' L / 2)
        def run0(ex):
            mk_gv(ex)
            x = mk_osig(ex, 'x', N, npol, False)
            return x, ex.call_fn(ff, [x, L], {'alpha': al, 'gamma': 0})
        for p in K.paths(run0, pre):
            sig = p.signature()
            if p.kind != 'ret':
                K.prove(f'loss_only.noraise[{sig}]', p.pc, False, replay=rep)
                continue
            x, y = p.value
            c = uf('exp', -(al / z3.RealVal(Fraction('4.343'))) / 2 * L)
            idx = idx_of(npol, i)
            K.prove(f'loss_only[{sig}]', list(p.pc) + pol_hyp(npol), eq_scalar(y.f['signal'].elem(idx), s_mul(c, x.f['signal'].elem(idx))) if y.cls == 'optical_signal' and conc(y.f.get('n_pol')) == npol else False,
                    replay=rep, words="beta2 = beta3 = gamma = 0: out = in * exp(-alpha' L / 2) (the all-pass part of the filter is the identity)")
        # FIBER(L, beta2) = DM(beta2*L)
        def run2(ex):
            mk_gv(ex)
            x = mk_osig(ex, 'x', N, npol, False)
            return ex.call_fn(ff, [x, L], {'beta_2': b2}), ex.call_fn(fdm, [x, b2 * L], {})
        for p in K.paths(run2, pre):
            sig = p.signature()
            if p.kind != 'ret':
                K.prove(f'eq_dm.noraise[{sig}]', p.pc, False, replay=rep)
                continue
            y, z = p.value
            K.prove(f'eq_dm[{sig}]', list(p.pc) + pol_hyp(npol), eq_scalar(y.f['signal'].elem(idx_of(npol, i)), z.f['signal'].elem(idx_of(npol, i))), replay=rep, words='FIBER(L, beta2) equals DM(beta2 * L)')
        # the constant: exp(-alpha L/4.343) vs 10^(-alpha L/10) = exp(-alpha L ln(10)/10)
        ln10 = UF['ln'](z3.RealVal(10))
        K.prove('power.constant', [al >= 0, L > 0], z3.And(al * L / z3.RealVal(Fraction('4.343')) - al * L * ln10 / 10 <= z3.RealVal(Fraction('3e-6')) * al * L,
                                                            al * L * ln10 / 10 - al * L / z3.RealVal(Fraction('4.343')) <= z3.RealVal(Fraction('3e-6')) * al * L),
                words="the exponent alpha' L = alpha L/4.343 differs from alpha L ln(10)/10 by at most 3e-6 alpha L: the power law is 10^(-alpha L/10) up to the constant the code rounds")
    f.__name__ = f'fiber_{npol}'
    return f


for (_n,) in LAYOUTS:
    globals()[f'dm_{_n}'] = _mk_dm(_n)
    globals()[f'fiber_{_n}'] = _mk_fiber(_n)


@clause('C07.bounded', min_obl=1)
def bounded(K):
    thorough = K.tier == 'thorough'
    seed = K.seed

    def work():
        import numpy as np
        from opticomlib.typing import optical_signal as O, gv
        from opticomlib.devices import DM, FIBER
        rng = np.random.default_rng(seed)
        bad, n, seen = [], 0, set()
        for (sps, R) in ((8, 10e9), (16, 2.5e9)):
            gv(sps=sps, R=R)
            for N in ([16, 17, 63, 64, 255, 1024] + ([1021, 4096] if thorough else [])):
                for shape in ((N,), (2, N)):
                    for _ in range(2 if not thorough else 5):
                        s = rng.normal(size=shape) + 1j * rng.normal(size=shape)
                        x = O(s)
                        w = 2 * np.pi * np.fft.fftfreq(N) * gv.fs
                        D, D2 = rng.uniform(-200, 200, 2)
                        L, L2 = rng.uniform(0.1, 80, 2)
                        a, b2, b3 = rng.uniform(0, 0.5), rng.uniform(-25, 25), rng.uniform(-0.2, 0.2)
                        n += 1
                        seen.add((sps, N, shape))
                        H = np.exp(-1j * w ** 2 * D * 1e-24 / 2)
                        y = DM(x, D)
                        ok = np.allclose(y.signal, np.fft.ifft(np.fft.fft(s, axis=-1) * H, axis=-1), rtol=1e-9, atol=1e-9)
                        ok = ok and np.allclose(np.sum(np.abs(y.signal) ** 2, axis=-1), np.sum(np.abs(s) ** 2, axis=-1), rtol=1e-9)
                        ok = ok and np.allclose(DM(y, -D).signal, s, atol=1e-9) and np.allclose(DM(y, D2).signal, DM(x, D + D2).signal, atol=1e-9)
                        wp = w * 1e-12
                        Hf = np.exp((-(a / 4.343) / 2 - 1j * b2 * wp ** 2 / 2 - 1j * b3 * wp ** 3 / 6) * L)
                        z = FIBER(x, L, alpha=a, beta_2=b2, beta_3=b3)
                        ok = ok and np.allclose(z.signal, np.fft.ifft(np.fft.fft(s, axis=-1) * Hf, axis=-1), atol=1e-9)
                        ok = ok and np.allclose(FIBER(z, L2, alpha=a, beta_2=b2, beta_3=b3).signal, FIBER(x, L + L2, alpha=a, beta_2=b2, beta_3=b3).signal, atol=1e-9)
                        ok = ok and np.allclose(FIBER(x, L, beta_2=b2).signal, DM(x, b2 * L).signal, atol=1e-9)
                        ok = ok and np.allclose(np.sum(np.abs(z.signal) ** 2, axis=-1), np.sum(np.abs(s) ** 2, axis=-1) * 10 ** (-a * L / 10), rtol=3e-6 * a * L + 1e-9)
                        ok = ok and z.signal.shape == s.shape and y.signal.shape == s.shape
                        if not ok:
                            bad.append({'N': N, 'shape': shape, 'D': D, 'L': L, 'alpha': a, 'beta2': b2, 'beta3': b3})
        gv.clean()
        return {'n': n, 'distinct': len(seen), 'bad': bad[:5], 'nbad': len(bad)}
    st, r = native(work, 1800)
    K.bounded('numeric', st == 'ok' and r['nbad'] == 0, {'evaluations': r['n'] if st == 'ok' else 0, 'distinct_nontrivial': r['distinct'] if st == 'ok' else 0,
              'bound': 'N in {16,17,63,64,255,1024} x 2 layouts x 2 gv grids x 2 random parameter draws (thorough: more)', 'samples': [{'N': 63, 'shape': [2, 63]}], 'failures': r if st == 'ok' else [st, r]})


def frame_runs(K):
    N = z3.Int('N')
    D, L, b2 = z3.Reals('D L beta2')
    fdm, ff = fn(K, 'devices.DM'), fn(K, 'devices.FIBER')
    out = []
    for npol in (1, 2):
        def r1(ex, npol=npol):
            mk_gv(ex)
            return ex.call_fn(fdm, [mk_osig(ex, 'x', N, npol, True), D], {})
        def r2(ex, npol=npol):
            mk_gv(ex)
            return ex.call_fn(ff, [mk_osig(ex, 'x', N, npol, True), L], {'beta_2': b2, 'gamma': 0})
        out.append((f'devices.DM[{npol}pol]', r1, [N >= 1], None))
        out.append((f'devices.FIBER.linear[{npol}pol]', r2, [N >= 1, L > 0], None))
    return out
