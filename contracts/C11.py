"""C11 - LPF/BPF are linear zero-phase filters with unit DC gain and -6 dB at cutoff.

Under contract (devices.py): LPF, BPF - the *structure*: which operator is applied to what.  scipy's Bessel design +
sosfiltfilt enter as one uninterpreted operator L[n, Wn, fs] (linear, length preserving, acting along the last axis, on real and
imaginary parts separately).  Everything numerical about L (unit DC gain, -6 dB at cutoff, monotone attenuation, zero delay) is a
bounded run-time check of the same functions: no contract within reach decides scipy's filter design.
"""
import z3
from pyvc.vc import clause, mval
from pyvc.values import *
from pyvc import opaque, extern
from .common import *
from .C01 import wf, And_

LEVEL = 'exploration'
LEVEL_TEXT = ('Bounded exploration of the numerical clauses (constant in = constant out, 6.0 dB at cutoff, monotone attenuation, symmetric pulse response, no tone gain) on the real LPF/BPF over a '
              'stated grid of cutoffs, orders and sampling rates, plus a proved structural core: LPF/BPF apply one and the same operator L[n,BW(/2),fs] independently to signal, noise and each '
              'polarisation (hence linearity, independence and length preservation follow from the operator axioms), ndarray inputs are wrapped, wrong input types raise TypeError, and retH is the '
              'single-pass response of the same design on the signal\'s grid.')
LEVEL_NOTE = 'the filter numerics belong to scipy (bessel norm="mag", sosfiltfilt) and are only sampled; linearity of sosfiltfilt is an assumed axiom; the proved part is about the glue code'
EXPLANATION = LEVEL_TEXT
BOUNDED_RULE = 'cutoffs (0.01..0.45)*fs, orders 1..8, three sampling rates; constants, tones at/around cutoff, symmetric pulses, random linear combinations; distinct = distinct (filter, order, cutoff/fs, fs, test)'
TECHNIQUE = 'bounded run-time contract checks of the real filters on a stated grid + deductive verification (VCs from the AST, z3) of the filter glue code against an uninterpreted linear operator'


def native_struct_check():
    """replay oracle: LPF/BPF against scipy applied directly as the statement says (same prototype, per component, per row)"""
    import numpy as np, scipy.signal as sg
    from opticomlib.typing import gv, electrical_signal as E, optical_signal as O
    from opticomlib.devices import LPF, BPF
    rng = np.random.default_rng(0)
    gv(sps=16, R=1e9)
    N, BW, bad = 600, 2.5e9, []
    for n in (2, 4):
        sos = sg.bessel(N=n, Wn=BW, btype='low', fs=gv.fs, output='sos', norm='mag')
        s, nz = rng.normal(size=N), rng.normal(size=N)
        y = LPF(E(s, nz), BW, n=n)
        if not (np.allclose(y.signal, sg.sosfiltfilt(sos, s)) and np.allclose(y.noise, sg.sosfiltfilt(sos, nz)) and np.allclose(LPF(s, BW, n=n).signal, sg.sosfiltfilt(sos, s))):
            bad.append(['LPF', n])
        sos2 = sg.bessel(N=n, Wn=BW / 2, btype='low', fs=gv.fs, output='sos', norm='mag')
        for shape in ((N,), (2, N)):
            s = rng.normal(size=shape) + 1j * rng.normal(size=shape)
            nz = rng.normal(size=shape) + 1j * rng.normal(size=shape)
            y = BPF(O(s, nz), BW, n=n)
            if not (np.allclose(y.signal, sg.sosfiltfilt(sos2, s, axis=-1)) and np.allclose(y.noise, sg.sosfiltfilt(sos2, nz, axis=-1))):
                bad.append(['BPF', n, shape])
    gv.clean()
    return not bad, bad


def rep(m):
    st, out = native(native_struct_check, 120)
    return {'confirmed': st != 'ok' or not out[0], 'inputs': 'random records N=600, orders 2 and 4, LPF with noise / ndarray, BPF 1 and 2 polarisations with noise', 'observed': out}


def Lspec(ex, arr, n, W, fs):
    return opaque.apply_last_axis(ex, 'L', (n, W, fs, 'low', 'mag'), arr)


@clause('C11.struct.lpf', min_obl=8)
def struct_lpf(K):
    N, i = z3.Ints('N i')
    BW, fsx = z3.Reals('BW fs_arg')
    fl = fn(K, 'devices.LPF')
    for form in ('esig', 'esig+noise', 'ndarray'):
        for order in (4, 2):
            for fs_given in (False, True):
                def run(ex):
                    g = mk_gv(ex)
                    if form == 'ndarray':
                        x = real_arr('x', [N])
                        ex.param_provs[x.prov] = 'input'
                        sig_in, nz_in = x, None
                        arg = x
                    else:
                        arg = mk_esig(ex, 'x', N, noise=(form == 'esig+noise'))
                        sig_in, nz_in = arg.f['signal'], arg.f['noise']
                    fs = fsx if fs_given else g.f['fs']
                    spec_s = Lspec(ex, sig_in, order, BW, fs)
                    spec_n = Lspec(ex, nz_in, order, BW, fs) if nz_in is not None else None
                    kw = {'n': order}
                    if fs_given:
                        kw['fs'] = fsx
                    return spec_s, spec_n, ex.call_fn(fl, [arg, BW], kw)
                for p in K.paths(run, [N >= 1, i >= 0, i < N, BW > 0, fsx > 0]):
                    sig = f'{form},n={order},fs_given={fs_given}][{p.signature()}'
                    if p.kind != 'ret':
                        K.prove(f'noraise[{sig}]', p.pc, False, words='LPF accepts electrical signals and ndarrays')
                        continue
                    spec_s, spec_n, y = p.value
                    K.prove(f'shape[{sig}]', p.pc, And_(wf(y, N)) if isinstance(y, Obj) and y.cls == 'electrical_signal' else False, words='electrical_signal of the input length')
                    K.prove(f'signal[{sig}]', p.pc, eq_scalar(y.f['signal'].elem((i,)), spec_s.elem((i,))), replay=rep, words=f'signal = L[n={order}, Wn=BW, fs](signal): Bessel(norm=mag) low-pass applied forward-backward')
                    if (spec_n is None) != (y.f['noise'] is None):
                        K.fail(f'noise_presence[{sig}]', 'noise presence changed by LPF')
                    elif spec_n is not None:
                        K.prove(f'noise[{sig}]', p.pc, eq_scalar(y.f['noise'].elem((i,)), spec_n.elem((i,))), replay=rep, words='noise is filtered by the same operator, independently of the signal')
                    bad = purity_violations(p, y)
                    (K.fail if bad else K.ok)(f'frame[{sig}]', '; '.join(bad) if bad else 'input untouched, fresh output')
    # retH
    def run_h(ex):
        g = mk_gv(ex)
        x = mk_esig(ex, 'x', N)
        return g, ex.call_fn(fl, [x, BW], {'retH': True})
    for p in K.paths(run_h, [N >= 1, BW > 0]):
        sig = p.signature()
        if p.kind != 'ret' or not isinstance(p.value[1], tuple):
            K.fail(f'retH[{sig}]', f'retH path: {p.kind}')
            continue
        g, (y, H) = p.value
        fz = p.ex.__dict__.get('freqz', [])
        ok = len(fz) == 1 and isinstance(H, Arr)
        if ok:
            params, worN, whole, fs_ = fz[0].freqz
            same_design = opaque.params_equal(p.ex, params, (4, BW, g.f['fs'], 'low', 'mag'))
            Hs = extern.np_fftshift(p.ex, fz[0])
            j = z3.Int('jh')
            K.prove(f'retH.grid[{sig}]', p.pc, z3.And(tonum(worN) == N, z3.BoolVal(whole is True), z3.BoolVal(same_design), toreal(fs_) == toreal(g.f['fs'])),
                    words='retH is sosfreqz of the same second-order sections on N points over the whole circle at the same fs (single pass)')
            K.prove(f'retH.shift[{sig}]', list(p.pc) + [j >= 0, j < N], eq_scalar(H.elem((j,)), Hs.elem((j,))), words='returned fftshift-ed')
        else:
            K.fail(f'retH[{sig}]', 'no single frequency-response evaluation found')
    # wrong type
    for bad_in in ([1, 2, 3], 3):
        for p in K.paths(lambda ex: (mk_gv(ex), ex.call_fn(fl, [bad_in, BW], {}))[1], [BW > 0]):
            (K.ok if p.kind == 'raise' and p.value == 'TypeError' else K.fail)(f'type[{bad_in!r}][{p.signature()}]', f'{type(bad_in).__name__} input: {p.kind} {p.value}')


@clause('C11.struct.bpf', min_obl=6)
def struct_bpf(K):
    N, i = z3.Ints('N i')
    BW = z3.Real('BW')
    fb = fn(K, 'devices.BPF')
    for npol in (1, 2):
        for noise in (False, True):
            for order in (4, 3):
                def run(ex):
                    g = mk_gv(ex)
                    x = mk_osig(ex, 'x', N, npol, noise)
                    spec = {part: Lspec(ex, x.f[part], order, BW / 2, g.f['fs']) for part in ('signal', 'noise') if x.f[part] is not None}
                    return x, spec, ex.call_fn(fb, [x, BW], {'n': order})
                for p in K.paths(run, [N >= 1, i >= 0, i < N, BW > 0]):
                    sig = f'{npol}pol,noise={noise},n={order}][{p.signature()}'
                    if p.kind != 'ret':
                        K.prove(f'noraise[{sig}]', p.pc, False, words='BPF accepts every optical signal')
                        continue
                    x, spec, y = p.value
                    K.prove(f'shape[{sig}]', p.pc, And_(wf(y, N)) if y.cls == 'optical_signal' and conc(y.f.get('n_pol')) == npol else False, words='same class, layout, length')
                    for part in ('signal', 'noise'):
                        if (x.f[part] is None) != (y.f[part] is None):
                            K.fail(f'{part}_presence[{sig}]', f'{part} presence changed by BPF')
                        elif x.f[part] is not None:
                            for r_ in range(npol):
                                idx = (i,) if npol == 1 else (r_, i)
                                K.prove(f'{part}[{sig},pol{r_}]', p.pc, eq_scalar(y.f[part].elem(idx), spec[part].elem(idx)), replay=rep,
                                        words=f'{part}[p] = L[n, Wn=BW/2, fs=gv.fs]({part}[p]) on real and imaginary parts: same prototype on the complex envelope, row by row')
                    bad = purity_violations(p, y)
                    (K.fail if bad else K.ok)(f'frame[{sig}]', '; '.join(bad) if bad else 'input untouched, fresh output')
    for p in K.paths(lambda ex: (mk_gv(ex), ex.call_fn(fb, [mk_esig(ex, 'e', N), BW], {}))[1], [N >= 1, BW > 0]):
        (K.ok if p.kind == 'raise' and p.value == 'TypeError' else K.fail)(f'type[{p.signature()}]', f'electrical input: {p.kind} {p.value}')


@clause('C11.linear', min_obl=2)
def linear(K):
    """F(a x + b y) = a F(x) + b F(y): the three calls must go through the same linear operator and nothing else"""
    N, i = z3.Ints('N i')
    BW, a, b = z3.Reals('BW a b')
    fl, fb = fn(K, 'devices.LPF'), fn(K, 'devices.BPF')

    def run(ex):
        mk_gv(ex)
        x, y = mk_esig(ex, 'x', N), mk_esig(ex, 'y', N)
        xs, ys = x.f['signal'], y.f['signal']
        z = Obj('electrical_signal', signal=Arr([N], lambda ix: a * toreal(xs.elem(ix)) + b * toreal(ys.elem(ix)), 'float'), noise=None, execution_time=0)
        return [ex.call_fn(fl, [o, BW], {}) for o in (x, y, z)]
    for p in K.paths(run, [N >= 1, i >= 0, i < N, BW > 0]):
        sig = p.signature()
        if p.kind != 'ret':
            K.prove(f'lpf.noraise[{sig}]', p.pc, False)
            continue
        fx, fy, fz = p.value
        apps = [opaque.find_app(p.ex, o.f['signal']) for o in (fx, fy, fz)]
        if any(a_ is None for a_ in apps):
            K.prove(f'lpf[{sig}]', p.pc, False, words='each LPF output must be an application of the filter operator')
            continue
        fact = opaque.linear_fact(p.ex, apps[2], [(a, apps[0]), (b, apps[1])])
        if fact is None:
            K.prove(f'lpf[{sig}]', p.pc, False, words='the filter input of a*x+b*y must be a*input(x)+b*input(y)')
            continue
        K.prove(f'lpf[{sig}]', list(p.pc) + [fact(i)], toreal(fz.f['signal'].elem((i,))) == a * toreal(fx.f['signal'].elem((i,))) + b * toreal(fy.f['signal'].elem((i,))),
                words='LPF(a*x + b*y) = a*LPF(x) + b*LPF(y) (linearity of the operator, applied to exactly the signal)')

    def run2(ex):
        mk_gv(ex)
        x, y = mk_osig(ex, 'x', N, 1, False), mk_osig(ex, 'y', N, 1, False)
        xs, ys = x.f['signal'], y.f['signal']
        z = Obj('optical_signal', signal=Arr([N], lambda ix: s_add(s_mul(a, xs.elem(ix)), s_mul(b, ys.elem(ix))), 'complex'), noise=None, n_pol=1, execution_time=0)
        return [ex.call_fn(fb, [o, BW], {}) for o in (x, y, z)]
    for p in K.paths(run2, [N >= 1, i >= 0, i < N, BW > 0]):
        sig = p.signature()
        if p.kind != 'ret':
            K.prove(f'bpf.noraise[{sig}]', p.pc, False)
            continue
        fx, fy, fz = p.value
        for comp, pick in (('re', s_real), ('im', s_imag)):
            arrs = [Arr(o.f['signal'].shape, (lambda ix, o=o: pick(o.f['signal'].elem(ix))), 'float') for o in (fx, fy, fz)]
            apps = [opaque.find_app(p.ex, q) for q in arrs]
            if any(a_ is None for a_ in apps):
                K.prove(f'bpf.{comp}[{sig}]', p.pc, False, words='each BPF output component must be an application of the filter operator')
                continue
            fact = opaque.linear_fact(p.ex, apps[2], [(a, apps[0]), (b, apps[1])])
            if fact is None:
                K.prove(f'bpf.{comp}[{sig}]', p.pc, False)
                continue
            K.prove(f'bpf.{comp}[{sig}]', list(p.pc) + [fact(i)], toreal(arrs[2].elem((i,))) == a * toreal(arrs[0].elem((i,))) + b * toreal(arrs[1].elem((i,))),
                    words='BPF(a*x + b*y) = a*BPF(x) + b*BPF(y) for real a, b, component-wise')


@clause('C11.numeric', min_obl=1)
def numeric(K):
    thorough = K.tier == 'thorough'
    seed = K.seed

    def work():
        import numpy as np
        from opticomlib.typing import gv, electrical_signal as E, optical_signal as O
        from opticomlib.devices import LPF, BPF
        rng = np.random.default_rng(seed)
        bad, n, seen = [], 0, set()
        fss = [16e9, 80e9, 1e6] if thorough else [16e9, 1e6]
        fracs = [0.01, 0.02, 0.05, 0.1, 0.2, 0.3, 0.45] if thorough else [0.02, 0.1, 0.3, 0.45]
        orders = range(1, 9) if thorough else (1, 2, 4, 8)
        for fs in fss:
            gv(sps=16, R=fs / 16)
            for fr in fracs:
                BW = fr * fs
                for order in orders:
                    # enough periods of the slowest tone and of the filter memory
                    N = int(max(4096, 400 / fr))
                    t = np.arange(N) / fs
                    mid = slice(N // 4, 3 * N // 4)

                    def gain_db(F, f0):
                        x = np.cos(2 * np.pi * f0 * t)
                        y = F(x)
                        return 10 * np.log10(np.mean(y[mid] ** 2) / np.mean(x[mid] ** 2))
                    for name, F, fc in (('LPF', lambda x: LPF(E(x), BW, n=order).signal, BW),
                                        ('BPF', lambda x: BPF(O(x.astype(complex)), BW, n=order).signal.real, BW / 2)):
                        key = (name, order, fr, fs)
                        seen.add(key)
                        n += 6
                        const = F(np.full(N, 0.37))
                        if np.abs(const - 0.37).max() > 1e-6:
                            bad.append({'case': key, 'clause': 'constant unchanged', 'dev': float(np.abs(const - 0.37).max())})
                        g = gain_db(F, fc)
                        if abs(g + 6.0206) > 0.1:
                            bad.append({'case': key, 'clause': '6 dB at cutoff', 'gain_dB': float(g)})
                        gs = [gain_db(F, f) for f in (0.25 * fc, 0.5 * fc, fc, min(1.5 * fc, 0.49 * fs), min(2 * fc, 0.495 * fs))]
                        if any(b_ > a_ + 1e-6 for a_, b_ in zip(gs, gs[1:])) or max(gs) > 1e-6:
                            bad.append({'case': key, 'clause': 'monotone attenuation, no gain', 'gains_dB': [float(v) for v in gs]})
                        pulse = np.zeros(N)
                        w = max(3, int(2 / fr))
                        pulse[N // 2 - w:N // 2 + w + 1] = np.hanning(2 * w + 1)
                        yp = F(pulse)
                        c = N // 2
                        if np.abs(yp[c - 200:c] - yp[c + 200:c:-1]).max() > 1e-9 * max(1, np.abs(yp).max()):
                            bad.append({'case': key, 'clause': 'symmetric pulse stays symmetric (zero delay)'})
                        a_, b_ = rng.normal(size=2)
                        x1, x2 = rng.normal(size=N), rng.normal(size=N)
                        if np.abs(F(a_ * x1 + b_ * x2) - (a_ * F(x1) + b_ * F(x2))).max() > 1e-9:
                            bad.append({'case': key, 'clause': 'linearity'})
                        if len(F(x1)) != N:
                            bad.append({'case': key, 'clause': 'length'})
        # independence of the components: every layout (signal / noise, x / y, rows that are identically zero) is filtered exactly as the
        # same row would be on its own
        gv(sps=16, R=1e9)
        N = 2048
        for order in (2, 4):
            BW = 0.1 * gv.fs
            rows = {'random': rng.normal(size=N) + 1j * rng.normal(size=N), 'zero': np.zeros(N, complex), 'tone': np.exp(2j * np.pi * 0.05 * np.arange(N))}
            alone = {k_: BPF(O(v_), BW, n=order).signal for k_, v_ in rows.items()}
            for sx, sy, nx, ny in (('random', 'zero', 'tone', 'random'), ('zero', 'random', 'random', 'tone'), ('tone', 'random', None, None), ('zero', 'zero', 'random', 'tone'), ('random', None, 'tone', None), ('zero', None, 'tone', None)):
                n += 1
                seen.add(('layout', order, sx, sy, nx, ny))
                sig = rows[sx] if sy is None else np.array([rows[sx], rows[sy]])
                noi = None if nx is None else (rows[nx] if ny is None else np.array([rows[nx], rows[ny]]))
                y = BPF(O(sig, noi), BW, n=order)
                exp_s = alone[sx] if sy is None else np.array([alone[sx], alone[sy]])
                exp_n = None if nx is None else (alone[nx] if ny is None else np.array([alone[nx], alone[ny]]))
                ok = np.allclose(y.signal, exp_s, atol=1e-12) and ((y.noise is None) == (exp_n is None)) and (exp_n is None or np.allclose(y.noise, exp_n, atol=1e-12))
                if not ok:
                    bad.append({'case': ('BPF', order), 'clause': 'signal/noise/polarisations filtered independently', 'signal rows': [sx, sy], 'noise rows': [nx, ny]})
            er = {k_: v_.real for k_, v_ in rows.items()}
            alone_l = {k_: LPF(E(v_), BW, n=order).signal for k_, v_ in er.items()}
            for sx, nx in (('random', 'tone'), ('zero', 'random'), ('tone', None)):
                n += 1
                seen.add(('layout-lpf', order, sx, nx))
                y = LPF(E(er[sx], None if nx is None else er[nx]), BW, n=order)
                ok = np.allclose(y.signal, alone_l[sx], atol=1e-12) and ((y.noise is None) == (nx is None)) and (nx is None or np.allclose(y.noise, alone_l[nx], atol=1e-12))
                if not ok:
                    bad.append({'case': ('LPF', order), 'clause': 'signal/noise filtered independently', 'signal': sx, 'noise': nx})
        gv.clean()
        return {'n': n, 'distinct': len(seen), 'bad': bad[:8], 'nbad': len(bad)}
    st, r = native(work, 3000)
    K.bounded('filters', st == 'ok' and r['nbad'] == 0, {'evaluations': r['n'] if st == 'ok' else 0, 'distinct_nontrivial': r['distinct'] if st == 'ok' else 0,
              'bound': 'cutoff/fs in {0.02,0.1,0.3,0.45} (thorough 7 values), orders {1,2,4,8} (thorough 1..8), fs in {16e9,1e6} (thorough 3); tolerances from the statement (6.0 +- 0.1 dB); plus signal/noise/polarisation layouts incl. identically-zero rows filtered as the same rows alone',
              'samples': [{'filter': 'LPF', 'order': 4, 'cutoff/fs': 0.1, 'fs': 16e9}], 'failures': r if st == 'ok' else [st, r]})


def frame_runs(K):
    N = z3.Int('N')
    BW = z3.Real('BW')
    fl, fb = fn(K, 'devices.LPF'), fn(K, 'devices.BPF')
    return [('devices.LPF', lambda ex: (mk_gv(ex), ex.call_fn(fl, [mk_esig(ex, 'x', N, noise=True), BW], {}))[1], [N >= 1, BW > 0], None),
            ('devices.BPF', lambda ex: (mk_gv(ex), ex.call_fn(fb, [mk_osig(ex, 'x', N, 2, True), BW], {}))[1], [N >= 1, BW > 0], None)]
