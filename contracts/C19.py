"""C19 - unit conversions, Q, number formatting and string parsing are self-consistent.

Under contract (utils.py): db, dbm, idb, idbm, Q, rcos (scalar and array branch), dec2bin, si.
Bounded (regex / quadrature are outside the verifier): str2array round trips, gaus integral.
"""
import itertools, math, random
import z3
from pyvc.vc import clause, mval
from pyvc.values import *
from .common import *

LEVEL = 'proof'
LEVEL_TEXT = ('Proof over exact reals with log/power/erfc/cos axioms: the real db/dbm/idb/idbm/Q/rcos/si/dec2bin bodies are executed symbolically; inverse pairs, '
              'homomorphisms, Q symmetry/monotonicity, rcos range/evenness/half-point/support, dec2bin digits for every d <= 16 with symbolic v, and the si '
              'prefix table (mantissa * 10^prefix = x, mantissa in [1,1000)) are discharged for all inputs. str2array (regex) and the gaus integral are bounded '
              'run-time contract checks on the real functions, reported as bounded.')
LEVEL_NOTE = 'floats as reals; log10/10**x/erfc/cos uninterpreted with textbook axioms; format specs (:.1f) assumed to print the formatted term rounded; regex parsing only bounded'
EXPLANATION = 'see LEVEL_TEXT'
BOUNDED_RULE = ('str2array: every int/float/complex array up to 3x6 from a seeded generator rendered with each separator style and parsed back; bit patterns; explicit dtypes; invalid '
                'characters; distinct = distinct rendered strings. gaus: quadrature of the real function for seeded (mu, std)')


def call1(K, qual, x, pre):
    f = fn(K, qual)
    return K.paths(lambda ex: unwrap0(ex.call_fn(f, [x], {})), pre)


# ------------------------------------------------------------------ dB
@clause('C19.db', min_obl=8)
def db_pairs(K):
    x, y = z3.Reals('x y')
    fdb, fdbm, fidb, fidbm = (fn(K, 'utils.' + n) for n in ('db', 'dbm', 'idb', 'idbm'))

    def rep_inv(f, g, var, pos):
        def r(m):
            v = fval(mval(m, var))
            if pos and v <= 0:
                return {'confirmed': False}
            st, out = native(lambda: (float(getattr(__import__('opticomlib.utils', fromlist=['x']), g)(getattr(__import__('opticomlib.utils', fromlist=['x']), f)(v)))))
            return {'confirmed': not (st == 'ok' and close(out, v, 1e-9)), 'inputs': {var.decl().name(): v}, 'observed': out, 'expected': v}
        return r
    for inner, outer, name, pre, pos in (('db', 'idb', 'inv', [x > 0], True), ('dbm', 'idbm', 'inv_m', [x > 0], True),
                                          ('idb', 'db', 'inv_rev', [], False), ('idbm', 'dbm', 'inv_m_rev', [], False)):
        fi, fo = fn(K, 'utils.' + inner), fn(K, 'utils.' + outer)
        ps = K.paths(lambda ex: unwrap0(ex.call_fn(fo, [unwrap0(ex.call_fn(fi, [x], {}))], {})), pre)
        for p in ps:
            if p.kind == 'ret':
                K.prove(f'{name}[{p.signature()}]', p.pc, toreal(p.value) == x, replay=rep_inv(inner, outer, x, pos), words=f'{outer}({inner}(x)) = x')
            else:
                K.prove(f'{name}.noraise[{p.signature()}]', p.pc, False, replay=rep_inv(inner, outer, x, pos), words=f'{outer}({inner}(x)) must not raise on the domain')
    # homomorphism and dBm offset
    ps = K.paths(lambda ex: (unwrap0(ex.call_fn(fdb, [x * y], {})), unwrap0(ex.call_fn(fdb, [x], {})), unwrap0(ex.call_fn(fdb, [y], {}))), [x > 0, y > 0])
    for p in ps:
        if p.kind == 'ret':
            a, b, c = p.value
            K.prove(f'hom[{p.signature()}]', p.pc, toreal(a) == toreal(b) + toreal(c), words='db(x*y) = db(x) + db(y)')
        else:
            K.fail(f'hom[{p.signature()}]', 'db raised on positive input')
    ps = K.paths(lambda ex: (unwrap0(ex.call_fn(fdbm, [x], {})), unwrap0(ex.call_fn(fdb, [x], {}))), [x > 0])
    for p in ps:
        if p.kind == 'ret':
            a, b = p.value
            K.prove(f'dbm_off[{p.signature()}]', p.pc, toreal(a) == toreal(b) + 30, words='dbm(x) = db(x) + 30')
        else:
            K.fail(f'dbm_off[{p.signature()}]', 'dbm raised on positive input')
    # negative input -> ValueError
    for name, f in (('db', fdb), ('dbm', fdbm)):
        ps = K.paths(lambda ex: ex.call_fn(f, [x], {}), [x < 0])
        for p in ps:
            if p.kind == 'raise' and p.value == 'ValueError':
                K.ok(f'neg.{name}[{p.signature()}]', 'negative input raises ValueError')
            else:
                K.fail(f'neg.{name}[{p.signature()}]', f'negative input: {p.kind} {p.value}')
        K.cover(f'cover.neg.{name}', [x < 0])


# ------------------------------------------------------------------ Q
def native_db_arrays():
    import numpy as np
    from opticomlib import utils as U
    bad = []
    for name, dom in (('db', 'pos'), ('dbm', 'pos'), ('idb', 'all'), ('idbm', 'all')):
        f = getattr(U, name)
        for dt in (float, int):
            x = (np.array([1, 2, 10, 250]) if dom == 'pos' else np.array([-30, 0, 3, 20])).astype(dt)
            table = np.stack([x, x + 1]).astype(dt)
            for arg, label in ((x, 'ndarray'), (table[0], 'row view of a table')):
                keep = arg.copy()
                r1 = np.array(f(arg), copy=True)
                same_in = np.array_equal(arg, keep)
                r2 = f(arg)
                ok = same_in and np.allclose(r1, r2) and not np.shares_memory(np.asarray(r2), arg) and np.allclose(r1, [float(f(float(v))) for v in keep])
                if not ok:
                    bad.append([name, np.dtype(dt).name, label, 'argument modified' if not same_in else 'second call differs / result aliases the argument / differs from the scalar form'])
    return not bad, bad


@clause('C19.db_arrays', min_obl=8)
def db_arrays(K):
    """the four conversions on array arguments: element-wise equal to the scalar form, argument buffer untouched, fresh result"""
    n, i = z3.Ints('n i')

    def rep(m):
        st, out = native(native_db_arrays, 60)
        return {'confirmed': st != 'ok' or not out[0], 'inputs': 'float64 / int64 ndarrays and row views of a 2-D table, each function called twice', 'observed': out}
    for name, pos in (('db', True), ('dbm', True), ('idb', False), ('idbm', False)):
        f = fn(K, 'utils.' + name)

        def run(ex):
            x = real_arr('xa', [n])
            ex.param_provs[x.prov] = 'x'
            if pos:
                ex.add_forall(lambda j: toreal(x.elem((j,))) > 0)
            return x, ex.call_fn(f, [x], {}), unwrap0(ex.call_fn(f, [x.elem((i,))], {}))
        for p in K.paths(run, [n >= 1, i >= 0, i < n] + ([toreal(real_arr('xa', [n]).elem((i,))) > 0] if pos else [])):
            sig = f'{name}][{p.signature()}'
            if p.kind != 'ret':
                K.prove(f'noraise[{sig}]', p.pc, False, replay=rep, words=f'{name} accepts a real array' + (' of positive values' if pos else ''))
                continue
            x, ya, ys = p.value
            okk = isinstance(ya, Arr) and ya.ndim == 1
            K.prove(f'elementwise[{sig}]', p.pc, z3.And(tonum(ya.shape[0]) == n, toreal(ya.elem((i,))) == toreal(ys)) if okk else False, replay=rep, words=f'{name}(array)[i] = {name}(array[i]), same length')
            bad = frame_violations(p) + (purity_violations(p, ya) if okk else [])
            (K.fail if bad else K.ok)(f'frame[{sig}]', '; '.join(bad) if bad else 'argument untouched, fresh result')


@clause('C19.q', min_obl=3)
def q_props(K):
    x, y = z3.Reals('x y')
    fQ = fn(K, 'utils.Q')
    ps = K.paths(lambda ex: (unwrap0(ex.call_fn(fQ, [x], {})), unwrap0(ex.call_fn(fQ, [-x], {}))), [])
    for p in ps:
        a, b = p.value
        K.prove(f'sym[{p.signature()}]', p.pc, toreal(a) + toreal(b) == 1, words='Q(x) + Q(-x) = 1')
    for p in K.paths(lambda ex: unwrap0(ex.call_fn(fQ, [x], {})), []):
        r2 = UF['sqrt'](z3.RealVal(2))
        def rep(m):
            import math
            xv = fval(mval(m, x))
            st, out = native(lambda: float(__import__('opticomlib.utils', fromlist=['Q']).Q(xv)))
            exp = 0.5 * math.erfc(xv / math.sqrt(2))
            return {'confirmed': not (st == 'ok' and close(out, exp, 1e-9)), 'inputs': {'x': xv}, 'observed': out, 'expected': exp}
        K.prove(f'gaussian_tail[{p.signature()}]', p.pc, toreal(p.value) == UF['erfc'](x / r2) / 2, replay=rep,
                words='Q is the standard Gaussian tail: Q(x) = erfc(x/sqrt 2)/2 (the meaning of Q used by C13)')
    ps = K.paths(lambda ex: unwrap0(ex.call_fn(fQ, [0], {})), [])
    for p in ps:
        K.prove(f'half[{p.signature()}]', p.pc, toreal(p.value) == Fraction(1, 2), words='Q(0) = 1/2')
    ps = K.paths(lambda ex: (unwrap0(ex.call_fn(fQ, [x], {})), unwrap0(ex.call_fn(fQ, [y], {}))), [x < y])
    for p in ps:
        a, b = p.value
        K.prove(f'dec[{p.signature()}]', p.pc, toreal(a) > toreal(b), words='x < y  =>  Q(x) > Q(y)')
        K.prove(f'range[{p.signature()}]', p.pc, z3.And(toreal(a) > 0, toreal(a) < 1), words='0 < Q < 1')


# ------------------------------------------------------------------ rcos
def rcos_spec_facts(x, al, T, val):
    """the property's four facts about one value of rcos"""
    half = 1 / (2 * T)
    ax = z3.If(x >= 0, x, -x)
    return {
        'range': z3.And(val >= 0, val <= 1),
        'half': z3.Implies(z3.And(al > 0, ax == half), val == Fraction(1, 2)),
        'zero': z3.Implies(ax > (1 + al) / (2 * T), val == 0),
        'flat': z3.Implies(ax <= (1 - al) / (2 * T), val == 1),
    }


def native_rcos_check(xv, al, T, arr=False):
    import numpy as np
    from opticomlib.utils import rcos
    def one(v):
        return float(rcos(np.array([v]), al, T)[0]) if arr else float(rcos(v, al, T))
    v, vm = one(xv), one(-xv)
    ok = -1e-12 <= v <= 1 + 1e-12 and abs(v - vm) < 1e-12
    if abs(xv) > (1 + al) / (2 * T) * (1 + 1e-12):
        ok = ok and v == 0
    if al > 0:
        ok = ok and abs(one(1 / (2 * T)) - 0.5) < 1e-9
    return ok, v, vm


@clause('C19.rcos', min_obl=8)
def rcos_props(K):
    x, al, T = z3.Reals('x alpha T')
    pre = [al >= 0, al <= 1, T > 0]
    f = fn(K, 'utils.rcos')

    def rep(arr):
        def r(m):
            xv, av, Tv = (fval(mval(m, t)) for t in (x, al, T))
            st, out = native(lambda: native_rcos_check(xv, av, Tv, arr))
            return {'confirmed': st != 'ok' or not out[0], 'inputs': {'x': xv, 'alpha': av, 'T': Tv, 'array': arr}, 'observed': out}
        return r
    # scalar branch
    ps = K.paths(lambda ex: (ex.call_fn(f, [x, al, T], {}), ex.call_fn(f, [-x, al, T], {})), pre)
    for p in ps:
        if p.kind != 'ret':
            K.prove(f'scalar.noraise[{p.signature()}]', p.pc, False, replay=rep(False), words='rcos must not raise on its domain')
            continue
        v, vm = toreal(p.value[0]), toreal(p.value[1])
        for nm, g in rcos_spec_facts(x, al, T, v).items():
            K.prove(f'scalar.{nm}[{p.signature()}]', p.pc, g, replay=rep(False), words=f'rcos scalar branch: {nm}')
        K.prove(f'scalar.even[{p.signature()}]', p.pc, v == vm, replay=rep(False), words='rcos(-x) = rcos(x)')
    # array branch (float arrays), element i
    n, i = z3.Ints('n i')

    def run(ex):
        a = real_arr('xa', [n])
        am = Arr([n], lambda idx: -a.elem(idx), 'float')
        return a, ex.call_fn(f, [a, al, T], {}), ex.call_fn(f, [am, al, T], {})
    ps = K.paths(run, pre + [n >= 1, i >= 0, i < n])
    for p in ps:
        if p.kind != 'ret':
            K.prove(f'array.noraise[{p.signature()}]', p.pc, False, words='rcos(array) must not raise on its domain')
            continue
        a, H, Hm = p.value
        xi = a.elem((i,))
        v, vm = toreal(H.elem((i,))), toreal(Hm.elem((i,)))
        hy = list(p.pc)
        K.prove(f'array.len[{p.signature()}]', hy, tonum(H.shape[0]) == n, words='result has the length of x')
        for nm, g in rcos_spec_facts(xi, al, T, v).items():
            K.prove(f'array.{nm}[{p.signature()}]', hy, g, replay=rep(True), small=[n == 1], words=f'rcos array branch, element i: {nm}')
        K.prove(f'array.even[{p.signature()}]', hy, v == vm, replay=rep(True), words='rcos(-x)[i] = rcos(x)[i]')


# ------------------------------------------------------------------ dec2bin
def _mk_dec2bin(d):
    @clause(f'C19.dec2bin[{d}]', min_obl=2)
    def f(K):
        v = z3.Int('v')
        g = fn(K, 'utils.dec2bin')
        ps = K.paths(lambda ex: ex.call_fn(g, [v, d], {}), [v >= 0])

        def rep(m):
            vv = mval(m, v)
            def chk():
                from opticomlib.utils import dec2bin
                try:
                    return [int(b) for b in dec2bin(vv, d)]
                except ValueError:
                    return 'ValueError'
            st, out = native(chk)
            exp = 'ValueError' if vv >= 2 ** d else [int(c) for c in format(vv, f'0{d}b')]
            return {'confirmed': out != exp, 'inputs': {'v': vv, 'd': d}, 'observed': out, 'expected': exp}
        for p in ps:
            if p.kind == 'raise':
                K.prove(f'too_large[{p.signature()}]', p.pc, v >= 2 ** d if p.value == 'ValueError' else False, replay=rep, words='only v >= 2^d raises, with ValueError')
                continue
            b = p.value
            bs = [tonum(b.elem((j,))) for j in range(d)]
            goal = z3.And(*[z3.And(x >= 0, x <= 1) for x in bs], v == z3.Sum([x * 2 ** (d - 1 - j) for j, x in enumerate(bs)]), v < 2 ** d, tonum(b.shape[0]) == d)
            K.prove(f'digits[{p.signature()}]', p.pc, goal, replay=rep, words=f'{d}-digit big-endian expansion: every digit is 0/1 and v = sum_j digit_j * 2^(d-1-j) (unique)')
        K.cover('cover.raise', [v >= 2 ** d])
    f.__name__ = f'dec2bin_{d}'
    return f


for _d in range(1, 17):
    globals()[f'dec2bin_{_d}'] = _mk_dec2bin(_d)


# ------------------------------------------------------------------ si
PREFIX = {'f': -15, 'p': -12, 'n': -9, 'u': -6, 'μ': -6, 'm': -3, '': 0, 'k': 3, 'M': 6, 'G': 9, 'T': 12}


@clause('C19.si', min_obl=10)
def si_table(K):
    x = z3.Real('x')
    f = fn(K, 'utils.si')
    ps = K.paths(lambda ex: ex.call_fn(f, [x, 'Hz'], {}), [x >= Fraction('1e-15'), x < Fraction('1e15')])

    def rep(m):
        xv = fval(mval(m, x))
        def chk():
            from opticomlib.utils import si
            return si(xv, 'Hz', 6)
        st, out = native(chk)
        ok = False
        if st == 'ok' and isinstance(out, str):
            mant, rest = out.split(' ', 1)
            pre = rest[:-2]
            if pre in PREFIX:
                ok = close(float(mant) * 10.0 ** PREFIX[pre], xv, 1e-5) and 1 - 1e-9 <= float(mant) < 1000 + 1e-9
        return {'confirmed': not ok, 'inputs': {'x': xv}, 'observed': out, 'expected': 'mantissa in [1,1000) times SI prefix equal to x'}
    seen = set()
    for p in ps:
        sig = p.signature()
        if p.kind != 'ret' or not isinstance(p.value, FStr):
            K.prove(f'renders[{sig}]', p.pc, False, replay=rep, words='every x in [1e-15, 1e15) is rendered')
            continue
        parts = p.value.parts
        mant, spec = parts[0]
        tail = ''.join(q for q in parts[1:] if isinstance(q, str))
        pre = tail.strip()[:-2] if tail.strip().endswith('Hz') else None
        if pre not in PREFIX:
            K.fail(f'prefix[{sig}]', f'unknown prefix in rendered text {tail!r}')
            continue
        seen.add(pre)
        K.prove(f'value[{pre or "none"}][{sig}]', p.pc, toreal(mant) * z3.RealVal(Fraction(10) ** PREFIX[pre]) == x, replay=rep,
                words=f'printed mantissa * 10^{PREFIX[pre]} = x for prefix {pre!r}')
        K.prove(f'mantissa[{pre or "none"}][{sig}]', p.pc, z3.And(toreal(mant) >= 1, toreal(mant) < 1000), replay=rep, words='unrounded mantissa in [1, 1000)')
        if not (isinstance(spec, str) and spec.endswith('f')):
            K.fail(f'format[{sig}]', f'mantissa is not printed in fixed-point: spec {spec!r}')
    missing = set(PREFIX) - seen - {'u'}
    if missing:
        K.fail('prefix_table', f'prefixes never produced: {sorted(missing)}')
    else:
        K.ok('prefix_table', 'all ten SI prefixes f,p,n,u,m,none,k,M,G,T are produced')


# ------------------------------------------------------------------ bounded: str2array, gaus
def render(a, sep, rowsep, imag):
    import numpy as np
    def num(v):
        if np.iscomplexobj(a):
            return f'{v.real:.3f}{v.imag:+.3f}{imag}'
        if a.dtype.kind == 'f':
            return f'{v:.3f}'
        return str(int(v))
    rows = a if a.ndim == 2 else [a]
    return rowsep.join(sep.join(num(v) for v in r) for r in rows)


@clause('C19.bounded', min_obl=2)
def bounded(K):
    nrand = 400 if K.tier == 'thorough' else 80
    seed = K.seed

    def work():
        import numpy as np
        from scipy.integrate import quad
        from opticomlib.utils import str2array, gaus
        rng = np.random.default_rng(seed)
        bad, n, strings = [], 0, set()
        for _ in range(nrand):
            kind = rng.choice(['int', 'float', 'complex'])
            shape = (int(rng.integers(1, 7)),) if rng.random() < 0.5 else (int(rng.integers(2, 4)), int(rng.integers(1, 7)))
            if kind == 'int':
                a = rng.integers(-99, 100, size=shape)
                if np.all((a == 0) | (a == 1)):
                    a = a + 2
            elif kind == 'float':
                a = np.round(rng.normal(0, 10, size=shape), 3)
            else:
                a = np.round(rng.normal(0, 10, size=shape) + 1j * rng.normal(0, 10, size=shape), 3)
            for sep in (',', ' ', ', '):
                for rowsep in (';', '; '):
                    for imag in (('j', 'i') if kind == 'complex' else ('j',)):
                        s = render(a, sep, rowsep, imag)
                        strings.add(s)
                        n += 1
                        try:
                            b = str2array(s)
                            if b.shape != a.shape or not np.allclose(b, a, atol=1e-9):
                                bad.append({'string': s, 'got': str(b)})
                        except Exception as e:
                            bad.append({'string': s, 'raised': repr(e)})
        # bit patterns, digit by digit
        for L in range(1, 13 if nrand > 100 else 9):
            for v in range(2 ** L):
                s = format(v, f'0{L}b')
                n += 1
                b = str2array(s)
                if b.dtype != bool or [int(c) for c in s] != [int(x) for x in b]:
                    bad.append({'string': s, 'got': str(b)})
        # explicit dtype: honoured for every numeric dtype; text made only of 0/1 digits is then read token by token, not digit by digit
        cases = [('1 0 1', [1, 0, 1]), ('1,0;0,1', [[1, 0], [0, 1]]), ('10 11', [10, 11]), ('1 0 1 10', [1, 0, 1, 10]), ('10 11 0; 1 100 1', [[10, 11, 0], [1, 100, 1]]),
                 ('1 2 3', [1, 2, 3]), ('1 2', [1, 2]), ('110', [110]), ('0, 1, 11', [0, 1, 11]), ('7;8', [[7], [8]])]
        for s, exp in cases:
            for dt in (int, float, complex):
                n += 1
                strings.add(s + '|' + dt.__name__)
                try:
                    b = str2array(s, dt)
                    if b.dtype != np.dtype(dt) or b.shape != np.array(exp).shape or not np.array_equal(b, np.array(exp, dtype=dt)):
                        bad.append({'string': s, 'dtype': dt.__name__, 'got': str(b), 'expected': str(exp)})
                except Exception as e:
                    bad.append({'string': s, 'dtype': dt.__name__, 'raised': repr(e)})
        for s, exp in (('1 0 1', [1, 0, 1]), ('101', [1, 0, 1]), ('10;01', [[1, 0], [0, 1]])):
            n += 1
            b = str2array(s, bool)
            if b.dtype != bool or not np.array_equal(b, np.array(exp, dtype=bool)):
                bad.append({'string': s, 'dtype': 'bool', 'got': str(b)})
        for s in ('1 2 a', '3$4', '1,2;x', 'hello', '1e3', '0x10'):
            n += 1
            try:
                str2array(s)
                bad.append({'string': s, 'expected': 'ValueError'})
            except ValueError:
                pass
            except Exception as e:
                bad.append({'string': s, 'raised': repr(e)})
        gbad, gn = [], 0
        for _ in range(10):
            mu, sd = float(rng.normal(0, 5)), float(rng.uniform(0.1, 5))
            val = quad(lambda t: float(gaus(t, mu, sd)), mu - 12 * sd, mu + 12 * sd)[0]
            gn += 1
            if abs(val - 1) > 1e-7:
                gbad.append({'mu': mu, 'std': sd, 'integral': val})
        return {'n': n, 'distinct': len(strings), 'bad': bad[:5], 'nbad': len(bad), 'gn': gn, 'gbad': gbad, 'sample': sorted(strings)[:3]}
    st, r = native(work, 900)
    if st != 'ok':
        K.bounded('str2array', False, {'evaluations': 0, 'failures': st, 'error': r})
        return
    K.bounded('str2array', r['nbad'] == 0, {'evaluations': r['n'], 'distinct_nontrivial': r['distinct'], 'bound': f'{nrand} random arrays <= 3x6 x 6-12 renderings; all bit strings up to length {12 if nrand > 100 else 8}; dtype and invalid-character cases',
                                            'samples': r['sample'], 'failures': r['bad']})
    K.bounded('gaus', not r['gbad'], {'evaluations': r['gn'], 'distinct_nontrivial': r['gn'], 'bound': '10 seeded (mu, std), quadrature over +-12 std', 'failures': r['gbad'], 'samples': []})

    def work_purity():
        import numpy as np
        from opticomlib import utils as U
        bad, n = [], 0
        ok, out = native_db_arrays()
        n += 16
        if not ok:
            bad += [['dB conversions on arrays'] + o for o in out]
        # repeated calls: the first result is modified in place, the second call must still return what the text says
        for text, dt in (('1 0 1 1', bool), ('1,2;3,4', int), ('0.5 1.5', float), ('1+2j 3', complex), ('1011', int)):
            try:
                a = U.str2array(text, dt)
                keep = a.copy()
                a.fill(0)          # modify the first result in place
                b = U.str2array(text, dt)
                n += 1
                if np.shares_memory(a, b) or not np.array_equal(b, keep):
                    bad.append(['str2array repeated call', text, str(dt.__name__), b.tolist()])
            except Exception as e:
                bad.append(['str2array', text, f'{type(e).__name__}: {e}'])
        for v, d in ((5, 8), (0, 3), (255, 8)):
            a = U.dec2bin(v, d)
            keep = np.array(a, copy=True)
            a[...] = 1 - a
            b = U.dec2bin(v, d)
            n += 1
            if np.shares_memory(a, b) or not np.array_equal(b, keep):
                bad.append(['dec2bin repeated call', v, d])
        return {'n': n, 'bad': bad[:6], 'nbad': len(bad)}
    st, r = native(work_purity, 120)
    K.bounded('purity', st == 'ok' and r['nbad'] == 0, {'evaluations': r['n'] if st == 'ok' else 0, 'distinct_nontrivial': r['n'] if st == 'ok' else 0,
              'bound': 'db/dbm/idb/idbm on float and int ndarrays and on row views (argument unchanged, second call equal, no aliasing); str2array and dec2bin called again after the first result was modified in place',
              'samples': [{'fn': 'idbm', 'arg': 'row view of a float table'}], 'failures': r if st == 'ok' else [st, r]})
