"""helpers shared by the sidecar contracts: symbolic inputs, global state, native calls for replay."""
import math, cmath
from fractions import Fraction
import z3
from pyvc.values import *
from pyvc.interp import Fn, Exec
from pyvc.vc import mval, run_native, load_native, jsonable
from pyvc import arrays

C_LIGHT = 299792458


def fn(K, qual):
    mod, node, cls = K.repo.find(qual)
    return Fn(mod, node, cls=cls)


def unwrap0(v):
    """0-d array result -> scalar"""
    if isinstance(v, Arr) and v.ndim == 0:
        return v.at()
    return v


def mk_gv(ex, sps=None, R=None, fs=None, wavelength=None, with_N=False, extra=None):
    """global_variables object satisfying its invariant (fs = R*sps, dt = 1/fs, f0 = c/wavelength), fields symbolic"""
    sps = z3.Int('gv_sps') if sps is None else sps
    R = z3.Real('gv_R') if R is None else R
    wl = z3.Real('gv_wavelength') if wavelength is None else wavelength
    fsv = s_mul(R, sps) if fs is None else fs
    o = Obj('global_variables', sps=sps, R=R, fs=fsv, dt=s_div(1, fsv), wavelength=wl, f0=s_div(C_LIGHT, wl), N=None, t=None, dw=None, w=None)
    if extra:
        o.f.update(extra)
    ex.gv = o
    pre = []
    if isz(sps):
        pre.append(sps >= 1)
    if isz(R):
        pre.append(R > 0)
    if isz(wl):
        pre.append(wl > 0)
    for c in pre:
        ex.assume(c)
    return o


def bool_fun(name):
    return z3.Function(name, z3.IntSort(), z3.BoolSort())


def real_fun(name, nd=1):
    return z3.Function(name, *([z3.IntSort()] * nd), z3.RealSort())


def bits_arr(name, n, owner=None):
    """1-D uint8 array of 0/1 values, elements bit(i) = If(B(i),1,0)"""
    B = bool_fun(name)
    a = Arr([n], lambda idx: z3.If(B(tonum(idx[0])), z3.IntVal(1), z3.IntVal(0)), 'int', np_dtype='uint8')
    a.fun = B
    return a


def mk_binseq(ex, name, n):
    a = bits_arr(name, n)
    o = Obj('binary_sequence', data=a, execution_time=0)
    ex.param_provs[a.prov] = name + '.data'
    return o


def real_arr(name, shape):
    f = real_fun(name, len(shape))
    a = Arr(list(shape), lambda idx: f(*[tonum(i) for i in idx]), 'float')
    a.fun = f
    return a


def cx_arr(name, shape):
    fr = real_fun(name + '_re', len(shape))
    fi = real_fun(name + '_im', len(shape))
    a = Arr(list(shape), lambda idx: Cx(fr(*[tonum(i) for i in idx]), fi(*[tonum(i) for i in idx])), 'complex')
    a.fun = (fr, fi)
    return a


def int_arr(name, shape):
    f = z3.Function(name, *([z3.IntSort()] * len(shape)), z3.IntSort())
    a = Arr(list(shape), lambda idx: f(*[tonum(i) for i in idx]), 'int')
    a.fun = f
    return a


def mk_esig(ex, name, n, noise=False, kind='float'):
    mk = {'float': real_arr, 'complex': cx_arr, 'int': int_arr}[kind]
    s = mk(name + '_s', [n])
    nz = mk(name + '_n', [n]) if noise else None
    o = Obj('electrical_signal', signal=s, noise=nz, execution_time=0)
    ex.param_provs[s.prov] = name + '.signal'
    if nz is not None:
        ex.param_provs[nz.prov] = name + '.noise'
    return o


def mk_osig(ex, name, n, n_pol=1, noise=False, kind='complex'):
    mk = real_arr if kind == 'float' else cx_arr
    shape = [n] if n_pol == 1 else [2, n]
    s = mk(name + '_s', shape)
    nz = mk(name + '_n', shape) if noise else None
    o = Obj('optical_signal', signal=s, noise=nz, n_pol=n_pol, execution_time=0)
    ex.param_provs[s.prov] = name + '.signal'
    if nz is not None:
        ex.param_provs[nz.prov] = name + '.noise'
    return o


def eq_scalar(a, b):
    r = s_eq(a, b)
    return z3.BoolVal(r) if isinstance(r, bool) else r


def Z(v):
    """z3 term of a scalar value"""
    return toreal(v) if not isinstance(v, Cx) else v


def frame_violations(path, allow_attrs=('execution_time',)):
    """stores into caller-owned buffers / writes to gv recorded on a path"""
    bad = []
    for e in path.events:
        if e[0] == 'store' and e[1] in path.ex.param_provs:
            bad.append(f'store into {path.ex.param_provs[e[1]]} at {e[2]}')
        if e[0] == 'gv_write':
            bad.append(f'write to gv.{e[1]} at {e[2]}')
        if e[0] == 'module_state_write':
            bad.append(f'write to module-level state {e[1][1]} (module {e[1][0]}) at {e[2]}: results may depend on earlier calls')
        if e[0] == 'memo_mutable_result':
            bad.append(f'memoised function {e[1]} returns a mutable object (at {e[2]}): all callers with equal arguments share it, so results depend on what earlier callers did with theirs')
        if e[0] == 'memo_state_read':
            bad.append(f'memoised function {e[1][0]} reads {e[1][1]} at {e[2]}, which is not part of its cache key: results depend on earlier calls')
    return bad


def fval(v):
    """Fraction/int model value -> float"""
    if isinstance(v, Fraction):
        return v.numerator / v.denominator
    return v


def close(a, b, rel=1e-9, abs_=1e-12):
    try:
        return abs(a - b) <= abs_ + rel * max(abs(a), abs(b))
    except TypeError:
        return a == b


def native(f, timeout=60):
    """run a closure that imports the real library, in a child process"""
    def g():
        load_native()
        return f()
    return run_native(g, timeout)


def _vars_of(terms):
    seen, out, st = set(), set(), [t for t in terms if isz(t)]
    while st:
        x = st.pop()
        if x.get_id() in seen:
            continue
        seen.add(x.get_id())
        if z3.is_app(x) and x.num_args() == 0 and x.decl().kind() == z3.Z3_OP_UNINTERPRETED:
            out.add(x.decl().name())
        st.extend(x.children())
    return out


def result_terms(v, depth=0):
    """z3 terms that make up a result value (shapes and a generic element of every array, fields of objects)"""
    out = []
    if depth > 4:
        return out
    if isz(v):
        out.append(v)
    elif isinstance(v, Cx):
        out += [t for t in (v.re, v.im) if isz(t)]
    elif isinstance(v, BVInt):
        out.append(v.bv)
    elif isinstance(v, Arr):
        out += [d for d in v.shape if isz(d)]
        idx = tuple(z3.Int(f'ix!{depth}_{j}') for j in range(v.ndim))
        try:
            out += result_terms(v.elem(idx), depth + 1)
        except (Unsupported, SymRaise):
            pass
    elif isinstance(v, Obj):
        for k, x in v.f.items():
            if k != 'execution_time':
                out += result_terms(x, depth + 1)
    elif isinstance(v, (tuple, list)):
        for x in v:
            out += result_terms(x, depth + 1)
    elif isinstance(v, dict):
        for x in v.values():
            out += result_terms(x, depth + 1)
    return out


def purity_violations(path, value):
    """frame + determinism: stores into caller buffers, gv writes, wall-clock values flowing into the result or the control flow"""
    bad = frame_violations(path)
    names = _vars_of(result_terms(value) + [c for c in path.pc if isz(c)])
    nd = sorted(n for n in names if n.startswith('nondet_'))
    if nd:
        bad.append(f'result or control flow depends on a non-deterministic source other than numpy.random: {nd}')
    def arrays(v, d=0):
        if isinstance(v, Arr):
            yield v
        elif isinstance(v, Obj) and d < 3:
            for x in v.f.values():
                yield from arrays(x, d + 1)
        elif isinstance(v, (tuple, list)) and d < 3:
            for x in v:
                yield from arrays(x, d + 1)
    for a in arrays(value):
        if a.prov in path.ex.param_provs:
            bad.append(f'returned array aliases the caller buffer {path.ex.param_provs[a.prov]}')
    return bad
