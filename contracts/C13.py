"""C13 - analytic BER and receiver-noise formulas match closed forms and each other.

Under contract: utils.p_ase, utils.average_voltages, utils.noise_variances, utils.theory_BER (inner function),
utils.optimum_threshold, ook.THRESHOLD_EST, ppm.THRESHOLD_EST, ook/ppm.BER_analizer('estimator'), ook.theory_BER,
ppm.theory_BER (hard).   Bounded: Gaussian-integral closed forms, soft decision (scipy quad), monotonicity.

Receiver model of the property statement (the specification; f0 = c/wavelength, B = BW_el, l = B/BW_opt):
   p_ON + (M-1) p_OFF = M p_avg,  p_ON = er p_OFF
   p_ase = nf h f0 (g-1) BW_opt,  mu_ASE = r p_ase R_L (0 unamplified, g = 1)
   mu_k = r g p_k R_L + mu_ASE
   S_k = 4 kB T B R_L Fn  +  2 e mu_k B R_L  +  2 mu_ASE (mu_k - mu_ASE) l  +  mu_ASE^2 (1 - l/2) l
"""
import math
import z3
from pyvc.vc import clause, mval
from pyvc.values import *
from pyvc import reduce as red
from .common import *

LEVEL = 'other'
LEVEL_TEXT = ('Algebraic core proved, special-function facts bounded: the receiver model (p_ase, ON/OFF levels, the four variance terms) computed by the real utils functions is proved equal to '
              'the model of the property statement as polynomial identities over exact reals with 10**x uninterpreted; estimator translation invariance, threshold in [mu0, mu1], the '
              'closed form of optimum_threshold solving the likelihood equation and the hard-decision bound M/(2(M-1)) are discharged from the real code. Closed forms that need Gaussian '
              'integrals (Q(mu/2s), soft M=2, soft <= hard, monotonicity) are bounded run-time checks against scipy on a stated grid.')
LEVEL_NOTE = 'erfc/sqrt/ln/10**x uninterpreted with axioms; scipy.integrate.quad outside the verifier (soft decision only bounded); floats as reals'
EXPLANATION = LEVEL_TEXT
BOUNDED_RULE = 'grid over mu/s ratios, sigma ratios, M in {2,4,...,256}, P_avg, ER, G, NF, r, R_L, T; values compared with independent scipy evaluation; distinct = distinct parameter tuples'

H_, E_, KB_ = (z3.RealVal(Fraction(s)) for s in ('6.62607015e-34', '1.602176634e-19', '1.380649e-23'))
CL = z3.RealVal(299792458)
P10 = lambda x: uf('pow10', x)

SYMS = dict(P=z3.Real('P_avg'), ER=z3.Real('ER'), G=z3.Real('G'), NF=z3.Real('NF'), BWo=z3.Real('BW_opt'), r=z3.Real('r'), RL=z3.Real('R_L'),
            T=z3.Real('T'), BWe=z3.Real('BW_el'), NFe=z3.Real('NF_el'), wl=z3.Real('wavelength'), f0=z3.Real('f0'))
DOMAIN = [SYMS['BWo'] > SYMS['BWe'], SYMS['BWe'] > 0, SYMS['r'] > 0, SYMS['r'] <= 1, SYMS['RL'] >= 10, SYMS['T'] >= 0, SYMS['NFe'] >= 0, SYMS['wl'] > 0,
          SYMS['f0'] > 0, SYMS['G'] >= 0, SYMS['NF'] >= 3, SYMS['ER'] >= 3]


def spec_model(M, amplify, f0):
    """(p_ase, mu_ASE, [mu_OFF, mu_ON], [S_OFF, S_ON]) of the statement's model as z3 terms"""
    S = SYMS
    er, pavg = P10(S['ER'] / 10), P10(S['P'] / 10 - 3)
    # unique solution of p_ON + (M-1) p_OFF = M p_avg, p_ON = er p_OFF
    p_off = M * pavg / (er + (M - 1))
    p_on = er * p_off
    if amplify:
        g, nf = P10(S['G'] / 10), P10(S['NF'] / 10)
        p_ase = nf * H_ * f0 * (g - 1) * S['BWo']
        l = S['BWe'] / S['BWo']
    else:
        g, p_ase, l = z3.RealVal(1), z3.RealVal(0), z3.RealVal(1)
    mu_ase = S['r'] * p_ase * S['RL']
    mu = [S['r'] * g * p * S['RL'] + mu_ase for p in (p_off, p_on)]
    fn_el = P10(S['NFe'] / 10)
    var = [4 * KB_ * S['T'] * S['BWe'] * S['RL'] * fn_el + 2 * E_ * m * S['BWe'] * S['RL'] + 2 * mu_ase * (m - mu_ase) * l + mu_ase * mu_ase * (1 - l / 2) * l for m in mu]
    return p_ase, mu_ase, mu, var


def num_model(P, M, ER, amplify, f0, G, NF, BWo, r, BWe, RL, T, NFe):
    """independent float evaluation of the statement's model (replay oracle)"""
    h, e, kB = 6.62607015e-34, 1.602176634e-19, 1.380649e-23
    er, pavg = 10 ** (ER / 10), 10 ** (P / 10 - 3)
    p_off = M * pavg / (er + M - 1)
    p_on = er * p_off
    if amplify:
        g, nf = 10 ** (G / 10), 10 ** (NF / 10)
        p_ase, l = nf * h * f0 * (g - 1) * BWo, BWe / BWo
    else:
        g, p_ase, l = 1.0, 0.0, 1.0
    mu_ase = r * p_ase * RL
    mu = [r * g * p * RL + mu_ase for p in (p_off, p_on)]
    var = [4 * kB * T * BWe * RL * 10 ** (NFe / 10) + 2 * e * m * BWe * RL + 2 * mu_ase * (m - mu_ase) * l + mu_ase ** 2 * (1 - l / 2) * l for m in mu]
    return p_ase, mu_ase, mu, var


def model_inputs(m):
    """concrete, in-domain inputs from a counter-model (values outside the stated domain are replaced by typical ones)"""
    def get(k, lo, hi, dflt):
        v = fval(mval(m, SYMS[k])) if m is not None else dflt
        try:
            v = float(v)
        except Exception:
            v = dflt
        return v if lo <= v <= hi else dflt
    return dict(P=get('P', -50, 0, -25.0), ER=get('ER', 3, 60, 12.0), G=get('G', 0.5, 40, 20.0), NF=get('NF', 3, 10, 5.0), BWo=get('BWo', 1e9, 1e13, 50e9),
                r=get('r', 1e-3, 1, 0.8), RL=get('RL', 10, 1e4, 75.0), T=get('T', 0, 400, 290.0), BWe=get('BWe', 1e6, 9e8, 7e8) if False else 7e9 * 0 + 5e9,
                NFe=get('NFe', 0, 20, 3.0), wl=get('wl', 1e-6, 2e-6, 1550e-9))


def replay_model(which, M, amplify, modulation='ppm'):
    def rep(m):
        a = model_inputs(m)
        if a['BWo'] <= a['BWe']:
            a['BWo'] = 10 * a['BWe']
        f0 = 299792458 / a['wl']

        def chk():
            import numpy as np
            from opticomlib import utils as U
            kw = dict(M=M, ER=a['ER'], amplify=amplify, G=a['G'] if amplify else None, NF=a['NF'] if amplify else None, BW_opt=a['BWo'] if amplify else None, r=a['r'], R_L=a['RL'])
            exp = num_model(a['P'], M if modulation == 'ppm' else 2, a['ER'], amplify, f0, a['G'], a['NF'], a['BWo'], a['r'], a['BWe'], a['RL'], a['T'], a['NFe'])
            if which == 'p_ase':
                got = float(U.p_ase(amplify, a['wl'], kw['G'], kw['NF'], kw['BW_opt']))
                return close(got, exp[0], 1e-9), got, exp[0]
            if which == 'levels':
                mu, mu_ase = U.average_voltages(a['P'], modulation, wavelength=a['wl'], **kw)
                got = [float(mu[0]), float(mu[1]), float(mu_ase)]
                e = [exp[2][0], exp[2][1], exp[1]]
                return all(close(x, y, 1e-9) for x, y in zip(got, e)), got, e
            if which == 'variances':
                S = U.noise_variances(a['P'], modulation, wavelength=a['wl'], BW_el=a['BWe'], T=a['T'], NF_el=a['NFe'], **kw)
                got = [float(S[0]), float(S[1])]
                return all(close(x, y, 1e-9) for x, y in zip(got, exp[3])), got, exp[3]
            if which == 'theory_BER':
                from scipy.special import erfc
                Q = lambda x: 0.5 * erfc(x / 2 ** 0.5)
                got = float(U.theory_BER(a['P'], modulation, M=M, decision='hard', ER=a['ER'], amplify=amplify, f0=f0, G=kw['G'], NF=kw['NF'], BW_opt=kw['BW_opt'], r=a['r'], BW_el=a['BWe'], R_L=a['RL'], T=a['T'], NF_el=a['NFe']))
                mu, var = exp[2], exp[3]
                x = np.linspace(mu[0], mu[1], 5000)
                s0, s1 = var[0] ** 0.5, var[1] ** 0.5
                if modulation == 'ook':
                    e = float((0.5 * (Q((mu[1] - x) / s1) + Q((x - mu[0]) / s0))).min())
                else:
                    e = float((1 - Q((x - mu[1]) / s1) * (1 - Q((x - mu[0]) / s0)) ** (M - 1)).min() * M / 2 / (M - 1))
                return close(got, e, 1e-6, 1e-300), got, e
        st, out = native(chk)
        if st != 'ok':
            return {'confirmed': True, 'inputs': a, 'observed': [st, out], 'note': 'the real function does not return on in-domain inputs'}
        return {'confirmed': not out[0], 'inputs': dict(a, M=M, amplify=amplify, modulation=modulation), 'observed': out[1], 'expected': out[2]}
    return rep


def amp_kw(amplify):
    S = SYMS
    return dict(G=S['G'], NF=S['NF'], BW_opt=S['BWo']) if amplify else dict(G=None, NF=None, BW_opt=None)


@clause('C13.model.levels', min_obl=8)
def model_levels(K):
    S = SYMS
    f_pase, f_av = fn(K, 'utils.p_ase'), fn(K, 'utils.average_voltages')
    f0 = CL / S['wl']
    for amplify in (True, False):
        ps = K.paths(lambda ex: ex.call_fn(f_pase, [amplify, S['wl']], amp_kw(amplify)), DOMAIN)
        for p in ps:
            sig = f'amplify={amplify}][{p.signature()}'
            if p.kind != 'ret':
                K.prove(f'p_ase.accepts[{sig}]', p.pc, False, replay=replay_model('p_ase', 4, amplify), words='p_ase accepts every in-domain receiver')
                continue
            K.prove(f'p_ase[{sig}]', p.pc, toreal(unwrap0(p.value)) == spec_model(4, amplify, f0)[0], replay=replay_model('p_ase', 4, amplify), algebra=True,
                    words='p_ase = NF*h*f0*(G-1)*BW_opt with f0 = c/wavelength (0 without amplifier)')
        for (mod, M) in (('ook', None), ('ppm', 4), ('ppm', 64)):
            Mv = 2 if mod == 'ook' else M
            ps = K.paths(lambda ex: ex.call_fn(f_av, [S['P'], mod], dict(M=M, ER=S['ER'], amplify=amplify, wavelength=S['wl'], r=S['r'], R_L=S['RL'], **amp_kw(amplify))), DOMAIN)
            rep = replay_model('levels', Mv, amplify, mod)
            for p in ps:
                sig = f'{mod},M={Mv},amplify={amplify}][{p.signature()}'
                if p.kind != 'ret':
                    K.prove(f'levels.accepts[{sig}]', p.pc, False, replay=rep, words='average_voltages accepts amplified and unamplified receivers')
                    continue
                mu, mu_ase = p.value
                _, s_ase, s_mu, _ = spec_model(Mv, amplify, f0)
                K.prove(f'levels.off[{sig}]', p.pc, toreal(mu.elem((0,))) == s_mu[0], replay=rep, algebra=True, words='OFF level = r*g*p_OFF*R_L + mu_ASE, p_OFF from p_ON + (M-1)p_OFF = M p_avg, p_ON = er p_OFF')
                K.prove(f'levels.on[{sig}]', p.pc, toreal(mu.elem((1,))) == s_mu[1], replay=rep, algebra=True, words='ON level = r*g*p_ON*R_L + mu_ASE')
                K.prove(f'levels.ase[{sig}]', p.pc, toreal(unwrap0(mu_ase)) == s_ase, replay=rep, algebra=True, words='mu_ASE = r*p_ase*R_L')


@clause('C13.model.variances', min_obl=4)
def model_variances(K):
    S = SYMS
    f_nv = fn(K, 'utils.noise_variances')
    f0 = CL / S['wl']
    for amplify in (True, False):
        for (mod, M) in (('ook', None), ('ppm', 16)):
            Mv = 2 if mod == 'ook' else M
            ps = K.paths(lambda ex: ex.call_fn(f_nv, [S['P'], mod], dict(M=M, ER=S['ER'], amplify=amplify, wavelength=S['wl'], r=S['r'], BW_el=S['BWe'], R_L=S['RL'], T=S['T'], NF_el=S['NFe'], **amp_kw(amplify))), DOMAIN)
            rep = replay_model('variances', Mv, amplify, mod)
            for p in ps:
                sig = f'{mod},M={Mv},amplify={amplify}][{p.signature()}'
                if p.kind != 'ret':
                    K.prove(f'var.accepts[{sig}]', p.pc, False, replay=rep, words='noise_variances accepts amplified and unamplified receivers')
                    continue
                var = spec_model(Mv, amplify, f0)[3]
                for k, nm in ((0, 'off'), (1, 'on')):
                    K.prove(f'var.{nm}[{sig}]', p.pc, toreal(p.value.elem((k,))) == var[k], replay=rep, algebra=True,
                            words='S = 4kB*T*B*R_L*Fn + 2e*mu*B*R_L + 2*mu_ASE*(mu-mu_ASE)*l + mu_ASE^2*(1-l/2)*l  (electrical noise figure on the thermal term only)')


def q_term(x):
    return uf('erfc', x / uf('sqrt', z3.RealVal(2))) / 2


def _mk_tb_clause(amplify, mod, M, dec):
    Mv = 2 if mod == 'ook' else M

    @clause(f'C13.model.theory_BER[{mod},M={Mv},amplify={amplify}]', min_obl=3)
    def f(K):
        S = SYMS
        f_tb = fn(K, 'utils.theory_BER')
        j = z3.Int('j')
        ps = K.paths(lambda ex: unwrap0(ex.call_fn(f_tb, [S['P'], mod], dict(M=M, decision=dec, ER=S['ER'], amplify=amplify, f0=S['f0'], r=S['r'], BW_el=S['BWe'], R_L=S['RL'], T=S['T'], NF_el=S['NFe'], **amp_kw(amplify)))),
                     DOMAIN + [j >= 0, j < 5000])
        rep = replay_model('theory_BER', Mv, amplify, mod)
        for p in ps:
            sig = p.signature()
            if p.kind != 'ret':
                K.prove(f'accepts[{sig}]', p.pc, False, replay=rep, words='theory_BER accepts every in-domain receiver')
                continue
            mins = [r_ for r_ in p.ex.__dict__.get('reds', []) if r_.op == 'min']
            if len(mins) != 1:
                K.undecided(f'grid[{sig}]', f'expected one grid minimisation, found {len(mins)}')
                continue
            rd = mins[0]
            _, _, mu, var = spec_model(Mv, amplify, S['f0'])
            x = mu[0] + z3.ToReal(j) * (mu[1] - mu[0]) / 4999
            s0, s1 = uf('sqrt', var[0]), uf('sqrt', var[1])
            if mod == 'ook':
                body = (q_term((mu[1] - x) / s1) + q_term((x - mu[0]) / s0)) / 2
                scale = z3.RealVal(1)
            else:
                body = 1 - q_term((x - mu[1]) / s1) * toreal(s_pow(1 - q_term((x - mu[0]) / s0), Mv - 1))
                scale = z3.RealVal(Fraction(Mv, 2 * (Mv - 1)))
            K.prove(f'grid_size[{sig}]', p.pc, tonum(rd.n) == 5000, words='threshold grid of 5000 points')
            K.prove_congruent(f'integrand[{sig}]', list(p.pc), toreal(rd.body((), j)), body, replay=rep, positive=[var[0], var[1]],
                              words='the minimised error function is the two-Gaussian error integral evaluated on the levels and variances of the statement\'s model, at grid point mu_OFF + j*(mu_ON-mu_OFF)/4999')
            K.prove(f'result[{sig}]', p.pc, toreal(p.value) == toreal(rd.result(())) * scale, replay=rep, words='BER = grid minimum times M/(2(M-1))')
    f.__name__ = f'tb_{mod}_{Mv}_{int(amplify)}'
    return f


for _amp in (True, False):
    for (_mod, _M, _dec) in (('ook', None, None), ('ppm', 4, 'hard'), ('ppm', 16, 'hard')):
        _f = _mk_tb_clause(_amp, _mod, _M, _dec)
        globals()[_f.__name__] = _f


@clause('C13.estimators', min_obl=10)
def estimators(K):
    mu0, mu1, s0, s1, c = z3.Reals('mu0 mu1 s0 s1 c')
    pre = [mu1 > mu0, s0 > 0, s1 > 0]

    def eye(ex, shift=0):
        return Obj('eye', mu0=mu0 + shift, mu1=mu1 + shift, s0=s0, s1=s1, empty=False, execution_time=0)
    f_ook, f_ppm = fn(K, 'ook.THRESHOLD_EST'), fn(K, 'ppm.THRESHOLD_EST')
    f_book, f_bppm = fn(K, 'ook.BER_analizer'), fn(K, 'ppm.BER_analizer')
    cases = [('ook', lambda ex, e: ex.call_fn(f_ook, [e], {}), lambda ex, e: ex.call_fn(f_book, ['estimator'], {'eye_obj': e}))]
    for M in (2, 4, 64):
        cases.append((f'ppm{M}', lambda ex, e, M=M: ex.call_fn(f_ppm, [e, M], {}), lambda ex, e, M=M: ex.call_fn(f_bppm, ['estimator'], {'eye_obj': e, 'M': M, 'decision': 'hard'})))
    for nm, thr, ber in cases:
        ps = K.paths(lambda ex: (thr(ex, eye(ex)), thr(ex, eye(ex, c)), ber(ex, eye(ex)), ber(ex, eye(ex, c))), pre)
        for p in ps:
            sig = f'{nm}][{p.signature()}'
            if p.kind != 'ret':
                K.prove(f'noraise[{sig}]', p.pc, False, words='estimators accept any mu1 > mu0, s0, s1 > 0')
                continue
            t1, t2, b1, b2 = (toreal(unwrap0(v)) for v in p.value)
            K.prove(f'thr.translation[{sig}]', p.pc, t2 == t1 + c, words='shifting both levels by c shifts the threshold by c (depends on mu1-mu0, s0, s1, M only)')
            K.prove(f'ber.translation[{sig}]', p.pc, b2 == b1, words='estimated BER is invariant under a common shift of the levels')
            K.prove(f'thr.range[{sig}]', p.pc, z3.And(t1 >= mu0, t1 <= mu1), words='returned threshold lies in [mu0, mu1]')


@clause('C13.optimum_threshold', min_obl=3)
def optimum_threshold(K):
    mu0, mu1, S0, S1 = z3.Reals('mu0 mu1 S0 S1')
    f = fn(K, 'utils.optimum_threshold')

    def rep_for(mod, M):
        def rep(m):
            a = [fval(mval(m, t)) for t in (mu0, mu1, S0, S1)]
            def chk():
                import math
                from opticomlib.utils import optimum_threshold as ot
                r_ = float(ot(*[float(x) for x in a], mod, M))
                Mv = 2 if mod == 'ook' else M
                lhs = a[3] * (r_ - a[0]) ** 2 - a[2] * (r_ - a[1]) ** 2
                rhs = 2 * a[2] * a[3] * math.log((Mv - 1) * math.sqrt(a[3]) / math.sqrt(a[2]))
                return math.isfinite(r_) and close(lhs, rhs, 1e-6, 1e-12), r_
            st, out = native(chk)
            return {'confirmed': st != 'ok' or not out[0], 'inputs': dict(mu0=a[0], mu1=a[1], S0=a[2], S1=a[3], modulation=mod, M=M), 'observed': out}
        return rep
    for (mod, M) in (('ook', None), ('ppm', 4), ('ppm', 256)):
        Mv = 2 if mod == 'ook' else M
        ps = K.paths(lambda ex: unwrap0(ex.call_fn(f, [mu0, mu1, S0, S1, mod, M], {})), [mu1 > mu0, S0 > 0, S1 > 0, S1 != S0])
        for p in ps:
            sig = f'{mod},M={Mv}][{p.signature()}'
            if p.kind != 'ret':
                K.prove(f'noraise[{sig}]', p.pc, False, replay=rep_for(mod, M))
                continue
            r_ = toreal(p.value)
            s0, s1 = uf('sqrt', S0), uf('sqrt', S1)
            L = uf('ln', s1 / s0 * (Mv - 1))
            defined = [c for (_, c, _, _) in p.ex.side]      # the closed form is real: radicand >= 0, logarithm argument > 0, divisors != 0
            K.prove(f'solves[{sig}]', list(p.pc) + defined, S1 * (r_ - mu0) * (r_ - mu0) - S0 * (r_ - mu1) * (r_ - mu1) == 2 * S0 * S1 * L, replay=rep_for(mod, M), algebra=True,
                    words='the returned threshold solves the likelihood equation S1 (r-mu0)^2 - S0 (r-mu1)^2 = 2 S0 S1 ln((M-1) s1/s0), i.e. (M-1) N(r;mu0,S0) = N(r;mu1,S1)')
            # which of the two roots: the one on the correct side of the levels (implied by "the threshold lies in [mu0, mu1]")
            K.prove(f'root.above_mu0[{sig}]', list(p.pc) + defined + [S1 > S0, L >= 0], r_ > mu0, replay=None, algebra=True,
                    words='S1 > S0 and ln((M-1)s1/s0) >= 0  =>  threshold > mu0 (the root between the levels, not the mirror root)')
            K.prove(f'root.below_mu1[{sig}]', list(p.pc) + defined + [S1 < S0, L <= 0], r_ < mu1, replay=None, algebra=True,
                    words='S1 < S0 and ln((M-1)s1/s0) <= 0  =>  threshold < mu1')
        # equal variances: defined, and the midpoint for OOK
        S = z3.Real('S')
        ps = K.paths(lambda ex: unwrap0(ex.call_fn(f, [mu0, mu1, S, S, mod, M], {})), [mu1 > mu0, S > 0])

        def rep_eq(m, mod=mod, M=M):
            a = [fval(mval(m, t)) for t in (mu0, mu1, S)]
            def chk():
                import math
                from opticomlib.utils import optimum_threshold as ot
                r_ = float(ot(float(a[0]), float(a[1]), float(a[2]), float(a[2]), mod, M))
                Mv = 2 if mod == 'ook' else M
                exp = (a[0] + a[1]) / 2 + a[2] * math.log(Mv - 1) / (a[1] - a[0])
                return math.isfinite(r_) and close(r_, exp, 1e-9), r_, exp
            st, out = native(chk)
            return {'confirmed': st != 'ok' or not out[0], 'inputs': dict(mu0=a[0], mu1=a[1], S0=a[2], S1=a[2], modulation=mod, M=M), 'observed': out}
        for p in ps:
            sig = f'{mod},M={Mv}][{p.signature()}'
            if p.kind != 'ret':
                K.prove(f'equal_sigma.defined[{sig}]', p.pc, False, replay=rep_eq, words='equal variances are accepted')
                continue
            r_ = toreal(p.value)
            K.prove(f'equal_sigma.defined[{sig}]', p.pc, z3.And(*[c for (_, c, _, _) in p.ex.side]) if p.ex.side else z3.BoolVal(True), replay=rep_eq,
                    words='no division by zero / undefined operation for S0 = S1')
            K.prove(f'equal_sigma.value[{sig}]', p.pc, 2 * (r_ - mu0) * (mu1 - mu0) - (mu1 - mu0) * (mu1 - mu0) == 2 * S * uf('ln', z3.RealVal(Mv - 1)) if Mv > 2 else r_ == (mu0 + mu1) / 2, replay=rep_eq,
                    words='for S0 = S1 the solution of the likelihood equation: midpoint for OOK, midpoint + S ln(M-1)/(mu1-mu0) for PPM')


@clause('C13.hard_bound', min_obl=3)
def hard_bound(K):
    mu, s0, s1 = z3.Reals('mu s0 s1')
    f_ppm, f_ook = fn(K, 'ppm.theory_BER'), fn(K, 'ook.theory_BER')
    for M in (2, 4, 16, 256):
        ps = K.paths(lambda ex: unwrap0(ex.call_fn(f_ppm, [mu, s0, s1, M, 'hard'], {})), [mu > 0, s0 > 0, s1 > 0])
        for p in ps:
            if p.kind != 'ret':
                K.prove(f'ppm.noraise[M={M}][{p.signature()}]', p.pc, False)
                continue
            v = toreal(p.value)
            inst = red.instances(p.ex, [], [t for t in p.ex.index_terms])
            K.prove(f'ppm.bound[M={M}][{p.signature()}]', list(p.pc) + inst, z3.And(v <= z3.RealVal(Fraction(M, 2 * (M - 1))), v >= 0),
                    words='0 <= BER_hard <= M/(2(M-1)) for every mu, s0, s1 > 0')
            bad = frame_violations(p)
            (K.fail if bad else K.ok)(f'ppm.frame[M={M}][{p.signature()}]', '; '.join(bad) if bad else 'the result depends on (mu, s0, s1, M, decision) only: no state kept between calls')
    ps = K.paths(lambda ex: unwrap0(ex.call_fn(f_ook, [mu, s0, s1], {})), [mu > 0, s0 > 0, s1 > 0])
    for p in ps:
        if p.kind != 'ret':
            K.prove(f'ook.noraise[{p.signature()}]', p.pc, False)
            continue
        v = toreal(p.value)
        inst = red.instances(p.ex, [], [t for t in p.ex.index_terms])
        K.prove(f'ook.bound[{p.signature()}]', list(p.pc) + inst, z3.And(v <= 1, v >= 0), words='0 <= BER_ook <= M/(2(M-1)) = 1 for M = 2')
    K.cover('cover', [mu > 0, s0 > 0, s1 > 0])


@clause('C13.bounded', min_obl=1)
def bounded(K):
    thorough = K.tier == 'thorough'

    def work():
        import numpy as np, itertools, warnings
        from scipy.special import erfc
        from scipy.integrate import quad
        from opticomlib import ook, ppm, utils as U
        warnings.simplefilter('ignore')
        Q = lambda x: 0.5 * erfc(x / 2 ** 0.5)
        bad, n, seen = [], 0, set()
        ratios = [0.5, 2, 6, 10, 14, 20] if not thorough else list(np.linspace(0.2, 20, 25))
        sig = [(1.0, 1.0), (1.0, 2.0), (0.5, 0.1)] if not thorough else [(1.0, 1.0), (1.0, 2.0), (0.5, 0.1), (1.0, 5.0), (3.0, 1.0)]
        for k in ratios:
            for (a0, a1) in sig:
                s = 0.01
                mu, s0, s1 = k * s, a0 * s, a1 * s
                n += 1
                seen.add(('ook', round(k, 3), a0, a1))
                v = float(ook.theory_BER(mu, s0, s1))
                err = lambda xs: 0.5 * (Q((mu - xs) / s1) + Q(xs / s0))
                fine = float(err(np.linspace(0, mu, 200001)).min())          # true minimum (to quadrature of the grid)
                grid = float(err(np.linspace(0, mu, 1000)).min())            # the statement's 1000-point grid, evaluated independently
                if v < fine * (1 - 1e-9) - 1e-300 or not close(v, grid, 1e-9, 1e-300):
                    bad.append({'fn': 'ook.theory_BER', 'mu': mu, 's0': s0, 's1': s1, 'got': v, 'grid': grid, 'fine': fine})
                if a0 == a1 and not close(fine, float(Q(mu / 2 / s0)), 1e-6, 1e-300):
                    bad.append({'fn': 'Q(mu/2s) closed form vs true minimum', 'mu': mu, 's': s0, 'fine': fine, 'ref': float(Q(mu / 2 / s0))})
                prev = None
                for M in ((2, 4, 16, 256) if not thorough else (2, 4, 8, 16, 32, 64, 128, 256)):
                    n += 2
                    seen.add(('ppm', M, round(k, 3), a0, a1))
                    hard = float(ppm.theory_BER(mu, s0, s1, M, 'hard'))
                    soft = float(ppm.theory_BER(mu, s0, s1, M, 'soft'))
                    lim = M / 2 / (M - 1)
                    # independent evaluation of the documented formulas for THIS M (calls for other orders precede this one in the same process)
                    rg = np.linspace(0, mu, 1000)
                    hard_ref = lim * float(np.min(1 - Q((rg - mu) / s1) * (1 - Q(rg / s0)) ** (M - 1)))
                    soft_ref = lim * (1 - 1 / (2 * np.pi) ** 0.5 * quad(lambda x: (1 - Q((mu + s1 * x) / s0)) ** (M - 1) * np.exp(-x ** 2 / 2), -np.inf, np.inf)[0])
                    if not (close(hard, hard_ref, 1e-9, 1e-300) and close(soft, soft_ref, 1e-6, 1e-13)):
                        bad.append({'fn': 'ppm.theory_BER vs the documented formula for the requested M', 'M': M, 'mu': mu, 's0': s0, 's1': s1, 'hard': hard, 'hard_ref': hard_ref, 'soft': soft, 'soft_ref': soft_ref})
                    if not (-1e-12 <= soft <= hard * (1 + 1e-6) + 1e-15 and hard <= lim + 1e-12):
                        bad.append({'fn': 'ppm.theory_BER soft<=hard<=M/(2(M-1))', 'M': M, 'mu': mu, 's0': s0, 's1': s1, 'soft': soft, 'hard': hard})
                    if M == 2 and not close(soft, float(Q(mu / (s0 ** 2 + s1 ** 2) ** 0.5)), 1e-6, 1e-13):
                        bad.append({'fn': 'ppm soft M=2 closed form', 'mu': mu, 'got': soft, 'ref': float(Q(mu / (s0 ** 2 + s1 ** 2) ** 0.5))})
        # monotone in mu, vectorised
        mus = np.linspace(0.005, 0.2, 40)
        for M in (2, 4, 64):
            for dec in ('soft', 'hard'):
                v = ppm.theory_BER(mus, 0.01, 0.012, M, dec)
                n += 1
                if v.shape != mus.shape or np.any(np.diff(v) > 1e-12):
                    bad.append({'fn': f'ppm.theory_BER monotone/vectorised {dec}', 'M': M})
        v = ook.theory_BER(mus, 0.01, 0.012)
        if v.shape != mus.shape or np.any(np.diff(v) > 1e-12):
            bad.append({'fn': 'ook.theory_BER monotone/vectorised'})
        # utils.theory_BER decreasing in received power; equal-sigma midpoint of the OOK estimator
        P = np.linspace(-50, 0, 26)
        for kw in (dict(modulation='ook'), dict(modulation='ppm', M=4, decision='hard'), dict(modulation='ppm', M=16, decision='soft'),
                   dict(modulation='ook', amplify=True, G=20, NF=5, BW_opt=50e9)):
            v = U.theory_BER(P, **kw)
            n += 1
            if np.any(np.diff(v) > 1e-15):
                bad.append({'fn': 'utils.theory_BER monotone in P_avg', 'kw': str(kw)})
        from opticomlib.typing import eye
        for (m0, m1, s) in ((0.0, 1.0, 0.1), (0.3, 0.9, 0.05)):
            t = float(ook.THRESHOLD_EST(eye(mu0=m0, mu1=m1, s0=s, s1=s)))
            n += 1
            if abs(t - (m0 + m1) / 2) > (m1 - m0) / 999:
                bad.append({'fn': 'ook.THRESHOLD_EST midpoint', 'got': t})
        # integer-typed arguments give what the same values as floats give
        for mu_i in (1, 2, np.int64(3)):
            n += 1
            a_, b_ = float(ook.theory_BER(mu_i, 0.1, 0.1)), float(ook.theory_BER(float(mu_i), 0.1, 0.1))
            c_, d_ = float(ppm.theory_BER(mu_i, 0.1, 0.1, 4, 'hard')), float(ppm.theory_BER(float(mu_i), 0.1, 0.1, 4, 'hard'))
            if not (close(a_, b_, 1e-12, 1e-300) and close(c_, d_, 1e-12, 1e-300)):
                bad.append({'fn': 'theory_BER with an integer-typed mu', 'mu': int(mu_i), 'ook int/float': [a_, b_], 'ppm int/float': [c_, d_]})
        # array arguments: every element equals the scalar call, also when only some elements have equal variances
        S0 = np.array([0.01, 0.01, 0.02, 0.005])
        S1 = np.array([0.01, 0.03, 0.02, 0.02])
        for modulation, M in (('ook', None), ('ppm', 4)):
            n += 1
            try:
                va = np.asarray(U.optimum_threshold(0.0, 1.0, S0, S1, modulation, M), float)
                for q in range(4):
                    if S0[q] != S1[q]:
                        vs = float(U.optimum_threshold(0.0, 1.0, float(S0[q]), float(S1[q]), modulation, M))
                        if not close(float(va[q]), vs, 1e-9, 1e-12):
                            bad.append({'fn': 'optimum_threshold element-wise vs scalar', 'modulation': modulation, 'index': q, 'array': float(va[q]), 'scalar': vs})
            except Exception as e:
                bad.append({'fn': 'optimum_threshold with array variances', 'raised': f'{type(e).__name__}: {e}'[:100]})
        return {'n': n, 'distinct': len(seen), 'bad': bad[:6], 'nbad': len(bad)}
    st, r = native(work, 1800)
    ok = st == 'ok' and r['nbad'] == 0
    K.bounded('closed_forms', ok, {'evaluations': r['n'] if st == 'ok' else 0, 'distinct_nontrivial': r['distinct'] if st == 'ok' else 0,
                                   'bound': 'mu/s in 0.5..20, three sigma ratios, M in {2,4,16,256} (thorough: 25 ratios, 5 sigma pairs, 8 orders); 26 received powers',
                                   'samples': [{'mu/s': 6, 's0': 0.01, 's1': 0.02, 'M': 4}], 'failures': r if st == 'ok' else [st, r]})
