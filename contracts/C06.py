"""C06 - MZM obeys its passive transfer function; PM / laser phase terms are pure rotations.

Under contract (devices.py): MZM, PM, LASER (through optical_signal.__getitem__, constructors, idb/idbm inlined).
Over exact complex numbers with cos/sin/10**x/sqrt under their textbook axioms.
"""
import z3
from pyvc.vc import clause, mval
from pyvc.values import *
from pyvc import reduce as red, opaque
from .common import *
from .C01 import wf, And_

LEVEL = 'proof'
LEVEL_TEXT = ('Proof over exact complex arithmetic for all fields, drives and parameters: the real MZM body gives out = in*sqrt(loss)*(cos(theta) + j*10^(-ER/20)*sin(theta)), theta = pi(u+bias)/(2Vpi), for '
              'signal and noise alike in the selected polarisation and 0 in the other; |h|^2 <= loss for ER >= 0; on/off power ratio 10^(ER/10); 2Vpi periodicity of the output power; scalar / ndarray / '
              'electrical_signal drives give the same field; length mismatch -> ValueError, non-optical input -> TypeError. PM multiplies signal and noise by exp(j*pi*u/Vpi) (total-field power unchanged, '
              'PM(PM(x,a),b) = PM(x,a+b)); a LASER without RIN has |E|^2 = idbm(p) at every sample and rejects |df| > fs/2. The laser spectral peak is a bounded numerical check.')
LEVEL_NOTE = 'cos/sin/10**x/sqrt uninterpreted with axioms; np.random / np.cumsum phase noise is an unconstrained real array (enters only through exp(j*phase)); floats as reals'
EXPLANATION = LEVEL_TEXT
BOUNDED_RULE = 'LASER spectral peak at df for several df/fs ratios and lengths; numeric MZM/PM spot checks on random fields and drives; distinct = distinct (device, layout, parameters)'


def abs2(v):
    return opaque._abs2(v)


def idx_of(npol, i, r=None):
    return (i,) if npol == 1 else ((z3.Int('pol') if r is None else r), i)


def native_check(which='all'):
    import numpy as np
    from opticomlib.typing import optical_signal as O, electrical_signal as E, gv
    from opticomlib.devices import MZM, PM, LASER
    rng = np.random.default_rng(0)
    bad = []
    gv(sps=8, R=1e9, N=16)
    N = 24
    for shape in ((N,), (2, N)):
        s = rng.normal(size=shape) + 1j * rng.normal(size=shape)
        nz = (rng.normal(size=shape) + 1j * rng.normal(size=shape)) * 0.1
        u = rng.uniform(-6, 6, N)
        for noise in (None, nz):
            x = O(s, noise)
            bias, Vpi, loss, ER = 1.3, 4.2, 2.0, 17.0
            th = np.pi * (u + bias) / (2 * Vpi)
            h = 10 ** (-loss / 20) * (np.cos(th) + 1j * 10 ** (-ER / 20) * np.sin(th))
            for pol in (('x', 'y') if which in ('all', 'mzm') else ()):
                y = MZM(x, u, bias=bias, Vpi=Vpi, loss_dB=loss, ER_dB=ER, pol=pol)
                ref = s * h
                refn = None if noise is None else noise * h
                if len(shape) == 2:
                    ref = ref.copy(); ref[1 if pol == 'x' else 0] = 0
                    if refn is not None:
                        refn = refn.copy(); refn[1 if pol == 'x' else 0] = 0
                ok = np.allclose(y.signal, ref) and (noise is None) == (y.noise is None) and (noise is None or np.allclose(y.noise, refn))
                ok = ok and np.allclose(MZM(x, E(u), bias=bias, Vpi=Vpi, loss_dB=loss, ER_dB=ER, pol=pol).signal, y.signal)
                if not ok:
                    bad.append(['MZM', shape, noise is not None, pol])
            for drive in ((u, E(u), 0.7) if which in ('all', 'pm') else ()):
                try:
                    z = PM(x, drive, Vpi=Vpi)
                    dv = drive.signal if isinstance(drive, E) else drive
                    rot = np.exp(1j * np.pi * np.asarray(dv) / Vpi)
                    ok = np.allclose(z.signal, s * rot) and (noise is None) == (z.noise is None) and (noise is None or np.allclose(z.noise, noise * rot))
                except Exception as e:
                    ok = False
                if not ok:
                    bad.append(['PM', shape, noise is not None, type(drive).__name__])
    x = O(np.ones(4), np.array([1, -1, 1, -1.0]))
    if which in ('all', 'pm') and PM(x, 1.0).noise is None:
        bad.append(['PM drops zero-sum noise'])
    gv.clean()
    return not bad, bad[:6]


def mk_rep(which):
    def rep(m):
        st, out = native(lambda: native_check(which), 120)
        return {'confirmed': st != 'ok' or not out[0], 'inputs': f'{which}: random complex fields (1/2 polarisations, with/without noise), random drives as ndarray / electrical_signal / scalar', 'observed': out}
    return rep


rep = mk_rep('mzm')
rep_pm = mk_rep('pm')


def _mk_mzm(npol, pol):
    @clause(f'C06.mzm[{npol}pol,{pol}]', min_obl=10)
    def f(K):
        N, i = z3.Ints('N i')
        bias, Vpi, loss_dB, ER = z3.Reals('bias Vpi loss_dB ER_dB')
        fm = fn(K, 'devices.MZM')
        pre = [N >= 1, i >= 0, i < N, Vpi > 0, loss_dB >= 0, ER >= 0]
        sel = 0 if pol == 'x' else 1
        for noise in (False, True):
            # 'esig-realfield': a field stored as a real array (a CW carrier built from np.ones, LASER without linewidth, real-valued noise)
            for dkind in ('ndarray', 'esig', 'scalar', 'ndarray-realfield'):
                def run(ex):
                    mk_gv(ex)
                    x = mk_osig(ex, 'x', N, npol, noise, kind='float' if dkind.endswith('realfield') else 'complex')
                    if dkind.startswith('ndarray'):
                        u = real_arr('u', [N])
                        ex.param_provs[u.prov] = 'drive'
                        uv = lambda j: u.elem((j,))
                    elif dkind == 'esig':
                        u = mk_esig(ex, 'u', N)
                        uv = lambda j: u.f['signal'].elem((j,))
                    else:
                        u = z3.Real('u0')
                        uv = lambda j: u
                    return x, uv, ex.call_fn(fm, [x, u], {'bias': bias, 'Vpi': Vpi, 'loss_dB': loss_dB, 'ER_dB': ER, 'pol': pol})
                for p in K.paths(run, pre):
                    sig = f'noise={noise},{dkind}][{p.signature()}'
                    if p.kind != 'ret':
                        K.prove(f'noraise[{sig}]', p.pc, False, replay=rep, words='MZM accepts drives of matching length / scalars')
                        continue
                    x, uv, y = p.value
                    K.prove(f'shape[{sig}]', p.pc, And_(wf(y, N)) if y.cls == 'optical_signal' and conc(y.f.get('n_pol')) == npol else False, replay=rep, words='same class, layout and length')
                    th = PI * (toreal(uv(i)) + bias) / (2 * Vpi)
                    sl = uf('sqrt', uf('pow10', -loss_dB / 10))          # sqrt(loss), loss = 10^(-loss_dB/10)
                    eps = uf('sqrt', uf('pow10', -ER / 10))              # 10^(-ER/20) = sqrt(10^(-ER/10))  (axiom sqrt(10^a) = 10^(a/2))
                    h = Cx(sl * uf('cos', th), sl * eps * uf('sin', th))
                    for part in ('signal', 'noise'):
                        if (x.f[part] is None) != (y.f[part] is None):
                            K.fail(f'{part}_presence[{sig}]', f'{part} presence changed')
                            continue
                        if x.f[part] is None:
                            continue
                        for r_ in range(npol):
                            idx = idx_of(npol, i, r_)
                            exp_v = s_mul(x.f[part].elem(idx), h) if (npol == 1 or r_ == sel) else Cx(Fraction(0), Fraction(0))
                            got = y.f[part].elem(idx)
                            for comp, gv_, ev_ in (('re', s_real(got), s_real(exp_v)), ('im', s_imag(got), s_imag(exp_v))):
                                K.prove_congruent(f'transfer.{part}.{comp}[{sig},pol{r_}]', list(p.pc), toreal(gv_), toreal(ev_), replay=rep,
                                                  words=f'{part}: out = in*sqrt(loss)*(cos(theta)+j*10^(-ER/20)*sin(theta)) in the selected polarisation, 0 in the other')
                    # consequences at sample i of the selected polarisation
                    idx = idx_of(npol, i, sel if npol == 2 else None)
                    out_, in_ = y.f['signal'].elem(idx), x.f['signal'].elem(idx)
                    K.prove(f'passive[{sig}]', p.pc, toreal(abs2(out_)) <= uf('pow10', -loss_dB / 10) * toreal(abs2(in_)), replay=rep, algebra='full', words='|out|^2 <= loss*|in|^2: the modulator never amplifies (ER >= 0)')
                    bad = purity_violations(p, y)
                    (K.fail if bad else K.ok)(f'frame[{sig}]', '; '.join(bad) if bad else 'inputs untouched, fresh output')
        # ER, periodicity: drive values chosen through bias-free scalars
        u0 = z3.Real('u0')

        def run2(ex):
            mk_gv(ex)
            x = mk_osig(ex, 'x', N, npol, False)
            kw = {'bias': 0, 'Vpi': Vpi, 'loss_dB': loss_dB, 'ER_dB': ER, 'pol': pol}
            on = ex.call_fn(fm, [x, 0], dict(kw))
            off = ex.call_fn(fm, [x, Vpi], dict(kw))
            a = ex.call_fn(fm, [x, u0], dict(kw))
            b = ex.call_fn(fm, [x, u0 + 2 * Vpi], dict(kw))
            return x, on, off, a, b
        for p in K.paths(run2, pre):
            sig = p.signature()
            if p.kind != 'ret':
                K.prove(f'er.noraise[{sig}]', p.pc, False, replay=rep)
                continue
            x, on, off, a, b = p.value
            idx = idx_of(npol, i, sel if npol == 2 else None)
            P = lambda o: toreal(abs2(o.f['signal'].elem(idx)))
            K.prove(f'er[{sig}]', p.pc, P(on) == uf('pow10', ER / 10) * P(off), replay=rep, algebra='full', words='on/off power ratio = 10^(ER_dB/10)  (drive 0 vs drive Vpi)')
            K.prove(f'periodic[{sig}]', p.pc, P(a) == P(b), replay=rep, algebra='full', words='output power is 2*Vpi periodic in the drive')
        # rejections
        M_ = z3.Int('M')

        def run3(ex):
            mk_gv(ex)
            return ex.call_fn(fm, [mk_osig(ex, 'x', N, npol, False), real_arr('u', [M_])], {'pol': pol})
        for p in K.paths(run3, [N >= 2, M_ >= 2, M_ != N]):
            (K.ok if p.kind == 'raise' and p.value == 'ValueError' else K.fail)(f'mismatch[{p.signature()}]', f'drive of another length: {p.kind} {p.value}')

        def run4(ex):
            mk_gv(ex)
            return ex.call_fn(fm, [mk_esig(ex, 'e', N), 1], {})
        for p in K.paths(run4, [N >= 1]):
            (K.ok if p.kind == 'raise' and p.value == 'TypeError' else K.fail)(f'type[{p.signature()}]', f'non-optical input: {p.kind} {p.value}')
    f.__name__ = f'mzm_{npol}_{pol}'
    return f


for _n, _p in ((1, 'x'), (2, 'x'), (2, 'y')):
    globals()[f'mzm_{_n}_{_p}'] = _mk_mzm(_n, _p)


def _mk_pm(npol):
    @clause(f'C06.pm[{npol}pol]', min_obl=8)
    def f(K):
        N, i = z3.Ints('N i')
        Vpi, a0, b0 = z3.Reals('Vpi a0 b0')
        fp = fn(K, 'devices.PM')
        pre = [N >= 1, i >= 0, i < N, Vpi > 0]
        for noise in (False, True):
            # 'esig-realfield': a field stored as a real array (a CW carrier built from np.ones, LASER without linewidth, real-valued noise)
            for dkind in ('ndarray', 'esig', 'scalar', 'ndarray-realfield'):
                def run(ex):
                    mk_gv(ex)
                    x = mk_osig(ex, 'x', N, npol, noise, kind='float' if dkind.endswith('realfield') else 'complex')
                    if dkind.startswith('ndarray'):
                        u = real_arr('u', [N])
                        ex.param_provs[u.prov] = 'drive'
                        uv = lambda j: u.elem((j,))
                    elif dkind == 'esig':
                        u = mk_esig(ex, 'u', N)
                        uv = lambda j: u.f['signal'].elem((j,))
                    else:
                        u = a0
                        uv = lambda j: a0
                    return x, uv, ex.call_fn(fp, [x, u], {'Vpi': Vpi})
                for p in K.paths(run, pre):
                    sig = f'noise={noise},{dkind}][{p.signature()}'
                    if p.kind != 'ret':
                        K.prove(f'noraise[{sig}]', p.pc, False, replay=rep_pm, words='PM accepts scalar, ndarray and electrical_signal drives of matching length')
                        continue
                    x, uv, y = p.value
                    K.prove(f'shape[{sig}]', p.pc, And_(wf(y, N)) if y.cls == 'optical_signal' and conc(y.f.get('n_pol')) == npol else False, replay=rep_pm, words='same class, layout and length')
                    ph = PI * toreal(uv(i)) / Vpi
                    rot = Cx(uf('cos', ph), uf('sin', ph))
                    for part in ('signal', 'noise'):
                        if (x.f[part] is None) != (y.f[part] is None):
                            K.prove(f'{part}_presence[{sig}]', p.pc, False, replay=rep_pm, words=f'{part} is carried through the phase modulator whenever it is present')
                            continue
                        if x.f[part] is None:
                            continue
                        for r_ in range(npol):
                            idx = idx_of(npol, i, r_)
                            K.prove(f'rotate.{part}[{sig},pol{r_}]', p.pc, eq_scalar(y.f[part].elem(idx), s_mul(x.f[part].elem(idx), rot)), replay=rep_pm, words=f'{part}: out = in*exp(j*pi*u/Vpi)')
                    if all((x.f[q] is None) == (y.f[q] is None) for q in ('signal', 'noise')):
                        for r_ in range(npol):
                            idx = idx_of(npol, i, r_)
                            tot = lambda o: s_add(o.f['signal'].elem(idx), o.f['noise'].elem(idx)) if o.f['noise'] is not None else o.f['signal'].elem(idx)
                            K.prove(f'power[{sig},pol{r_}]', p.pc, toreal(abs2(tot(y))) == toreal(abs2(tot(x))), replay=rep_pm, words='instantaneous power of the total field (signal+noise) unchanged')
                    bad = purity_violations(p, y)
                    (K.fail if bad else K.ok)(f'frame[{sig}]', '; '.join(bad) if bad else 'inputs untouched, fresh output')
            # additivity
            def run2(ex):
                mk_gv(ex)
                x = mk_osig(ex, 'x', N, npol, noise)
                return ex.call_fn(fp, [ex.call_fn(fp, [x, a0], {'Vpi': Vpi}), b0], {'Vpi': Vpi}), ex.call_fn(fp, [x, a0 + b0], {'Vpi': Vpi})
            for p in K.paths(run2, pre):
                sig = f'noise={noise}][{p.signature()}'
                if p.kind != 'ret':
                    K.prove(f'add.noraise[{sig}]', p.pc, False, replay=rep_pm)
                    continue
                two, one = p.value
                for part in ('signal', 'noise'):
                    if two.f[part] is None or one.f[part] is None:
                        if (two.f[part] is None) != (one.f[part] is None) or (part == 'noise' and noise and two.f[part] is None):
                            K.prove(f'add.{part}_presence[{sig}]', p.pc, False, replay=rep_pm)
                        continue
                    for r_ in range(npol):
                        idx = idx_of(npol, i, r_)
                        K.prove(f'add.{part}[{sig},pol{r_}]', p.pc, eq_scalar(two.f[part].elem(idx), one.f[part].elem(idx)), replay=rep_pm, algebra='full', words='PM(PM(x,a),b) = PM(x,a+b)')
        M_ = z3.Int('M')

        def run3(ex):
            mk_gv(ex)
            return ex.call_fn(fp, [mk_osig(ex, 'x', N, npol, False), real_arr('u', [M_])], {})
        for p in K.paths(run3, [N >= 2, M_ >= 1, M_ != N]):
            (K.ok if p.kind == 'raise' and p.value == 'ValueError' else K.fail)(f'mismatch[{p.signature()}]', f'drive of another length: {p.kind} {p.value}')
    f.__name__ = f'pm_{npol}'
    return f


for _n in (1, 2):
    globals()[f'pm_{_n}'] = _mk_pm(_n)


@clause('C06.laser', min_obl=4)
def laser(K):
    N, i = z3.Ints('N i')
    pw, lw, df, rin = z3.Reals('p_dBm lw df rin')
    fl = fn(K, 'devices.LASER')
    for opts in ({}, {'lw': lw}, {'df': df}, {'lw': lw, 'df': df}):
        def run(ex):
            g = mk_gv(ex)
            t = real_arr('t', [N])
            ex.param_provs[t.prov] = 't'
            return g, ex.call_fn(fl, [t, pw], dict(opts))
        for p in K.paths(run, [N >= 1, i >= 0, i < N, lw > 0]):
            sig = f'{sorted(opts)}][{p.signature()}'
            g, _ = (p.value if p.kind == 'ret' else (None, None))
            if p.kind == 'raise':
                fs = toreal(p.ex.gv.f['fs'])
                K.prove(f'nyquist[{sig}]', p.pc, z3.And(z3.BoolVal('df' in opts), z3.Or(df > fs / 2, -df > fs / 2), p.value == 'ValueError'), words='LASER raises only for |df| > fs/2, with ValueError')
                continue
            g, y = p.value
            E = y.f['signal'].elem((i,))
            K.prove(f'power[{sig}]', p.pc, toreal(abs2(E)) == uf('pow10', pw / 10 - 3), words='without RIN |E|^2 = idbm(p) at every sample (phase noise and frequency offset are pure rotations)')
            K.prove(f'shape[{sig}]', p.pc, And_(wf(y, N)) if y.cls == 'optical_signal' else False, words='one optical sample per time sample')
            if 'df' in opts:
                fs = toreal(g.f['fs'])
                K.prove(f'within_nyquist[{sig}]', p.pc, z3.And(df <= fs / 2, -df <= fs / 2), words='normal return only for |df| <= fs/2')


@clause('C06.bounded', min_obl=1)
def bounded(K):
    seed = K.seed
    thorough = K.tier == 'thorough'

    def work():
        import numpy as np
        from opticomlib.typing import gv
        from opticomlib.devices import LASER
        bad, n, seen = [], 0, set()
        for (sps, R, Nn) in ((8, 10e9, 256), (16, 1e9, 128)) + (((4, 25e9, 1024),) if thorough else ()):
            gv(sps=sps, R=R, N=Nn)
            t = gv.t
            M = t.size
            for frac in (-0.4, -0.1, 0.0, 0.05, 0.25, 0.45):
                df = frac * gv.fs
                np.random.seed(seed)
                x = LASER(t, 3.0, lw=None, rin=None, df=df)
                n += 1
                seen.add((sps, frac))
                ok = np.allclose(np.abs(x.signal) ** 2, 10 ** (3.0 / 10 - 3), rtol=1e-9)
                spec = np.abs(np.fft.fft(x.signal))
                fk = np.fft.fftfreq(M, d=t[1] - t[0])[int(np.argmax(spec))]
                ok = ok and abs(fk - df) <= 1.5 / (M * (t[1] - t[0]))
                np.random.seed(seed)
                xl = LASER(t, 3.0, lw=1e5, rin=None, df=df)
                ok = ok and np.allclose(np.abs(xl.signal) ** 2, 10 ** (3.0 / 10 - 3), rtol=1e-9)
                if not ok:
                    bad.append({'sps': sps, 'df/fs': frac, 'peak': float(fk)})
        # time vectors of other types (integer sample instants, float32, a list): |E|^2 = P at every sample whatever the dtype of t
        for tt in (np.arange(64), np.arange(64, dtype=np.float32) * 1e-3, list(range(16))):
            n += 1
            try:
                xi = LASER(tt, 10.0)
                if not np.allclose(np.abs(xi.signal) ** 2, 10 ** (10.0 / 10 - 3), rtol=1e-6):
                    bad.append({'laser t dtype': str(np.asarray(tt).dtype), 'power': float(np.mean(np.abs(xi.signal) ** 2))})
            except Exception as e:
                bad.append({'laser t dtype': str(np.asarray(tt).dtype), 'raised': f'{type(e).__name__}: {e}'[:80]})
        gv.clean()
        r2 = native_check()
        if not r2[0]:
            bad += [{'spot': b} for b in r2[1]]
        return {'n': n + 30, 'distinct': len(seen) + 12, 'bad': bad[:5], 'nbad': len(bad)}
    st, r = native(work, 900)
    K.bounded('laser_peak_and_spot', st == 'ok' and r['nbad'] == 0, {'evaluations': r['n'] if st == 'ok' else 0, 'distinct_nontrivial': r['distinct'] if st == 'ok' else 0,
              'bound': 'df/fs in {-0.4,-0.1,0,0.05,0.25,0.45} x 2 grids (thorough 3): spectral peak within 1.5 bins of df; MZM/PM numeric spot checks on random fields', 'samples': [{'df/fs': 0.25}],
              'failures': r if st == 'ok' else [st, r]})


def frame_runs(K):
    N = z3.Int('N')
    fm, fp = fn(K, 'devices.MZM'), fn(K, 'devices.PM')
    out = []
    for npol in (1, 2):
        def r1(ex, npol=npol):
            mk_gv(ex)
            return ex.call_fn(fm, [mk_osig(ex, 'x', N, npol, True), mk_esig(ex, 'u', N)], {})
        def r2(ex, npol=npol):
            mk_gv(ex)
            return ex.call_fn(fp, [mk_osig(ex, 'x', N, npol, True), real_arr('u', [N])], {})
        out.append((f'devices.MZM[{npol}pol]', r1, [N >= 1], None))
        out.append((f'devices.PM[{npol}pol]', r2, [N >= 1], None))
    return out
