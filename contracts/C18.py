"""C18 - ADC is a true n-bit quantiser; shortest_int returns a shortest covering interval.

Under contract: utils.shortest_int, devices.ADC (otype 'v' and 'n', electrical_signal with/without noise and ndarray inputs).
np.sort enters as an assumed contract (a non-decreasing array); ADC uses shortest_int through its postcondition on the
sorted data, the estimated range [V_min, V_max] being otherwise arbitrary with V_max > V_min.
"""
import z3
from pyvc.vc import clause, mval
from pyvc.values import *
from pyvc import reduce as red
from .common import *

LEVEL = 'proof'
LEVEL_TEXT = ('Proof for all record lengths and sample values: the real shortest_int is executed symbolically on np.sort\'s contract (a non-decreasing array) - the result is a pair of order statistics '
              'exactly lag = floor(p*len/100) apart, lo <= hi, and no other pair lag apart is closer, ties included, lag = 0 included; the real ADC body is executed for n = 1..12: output length, '
              'integer codes in [0, 2^n-1], half-step error inside the range, saturation outside, values inside [V_min, V_max], ValueError for an unknown otype. Long-record numerics against '
              'a brute-force oracle are bounded.')
LEVEL_NOTE = 'np.sort modelled as "returns a non-decreasing array" (permutation property not needed); np.round as a nearest-integer witness; floats as reals; V_max > V_min is a precondition (non-constant record)'
EXPLANATION = LEVEL_TEXT
BOUNDED_RULE = 'records of 2..2^17 samples (gaussian, uniform, sine, quantised with ties), n in 1..12, percentages; brute-force minimum over sorted data; distinct = distinct (distribution, length, n|p)'


def native_si(data, p):
    import numpy as np
    from opticomlib.utils import shortest_int
    r = np.array(shortest_int(np.array(data, dtype=float), p)).ravel()
    s = np.sort(np.array(data, dtype=float))
    lag = int(len(s) * p / 100)
    best = (s[lag:] - s[:len(s) - lag]).min()
    lo, hi = float(r[0]), float(r[1])
    ok = len(r) == 2 and lo <= hi and abs((hi - lo) - best) <= 1e-10 and any(s[k] == lo and s[k + lag] == hi for k in range(len(s) - lag))
    return ok, [lo, hi], float(best)


@clause('C18.shortest_int', min_obl=4)
def shortest_int(K):
    n, j = z3.Ints('n j')
    pc_ = z3.Real('percent')
    f = fn(K, 'utils.shortest_int')

    def run(ex):
        d = real_arr('d', [n])
        ex.param_provs[d.prov] = 'data'
        return ex.call_fn(f, [d, pc_], {})

    def rep(m):
        nv = mval(m, n) if m is not None else 9
        pv = fval(mval(m, pc_)) if m is not None else 40.0
        if not isinstance(nv, int) or nv > 400:
            nv = 9
        cands = []
        if m is not None:
            sf = [d for d in m.decls() if d.name().startswith('sorted!')]
            if sf:
                cands.append([fval(mval(m, sf[0](z3.IntVal(k)))) for k in range(nv)])
        cands += [[0, 1, 1, 2, 5, 6, 6, 7, 20][:max(nv, 2)] if nv <= 9 else list(range(nv)), [0.0] * nv, list(range(nv)), [0, 0, 1, 1, 1, 5, 5, 9, 9, 9][:max(2, nv)]]
        def chk():
            for c in cands:
                for p in (pv, 10.0, 40.0, 50.0, 99.99):
                    try:
                        ok, got, best = native_si(c, p)
                    except Exception as e:
                        return False, c, p, f'{type(e).__name__}: {e}'[:100]
                    if not ok:
                        return False, c, p, [got, best]
            return True, None, None, None
        st, out = native(chk)
        return {'confirmed': st != 'ok' or not out[0], 'inputs': {'data': out[1], 'percent': out[2]} if st == 'ok' else None, 'observed': out[3] if st == 'ok' else out}
    ps = K.paths(run, [n >= 2, pc_ > 0, pc_ < 100, j >= 0])
    for p in ps:
        sig = p.signature()
        if p.kind != 'ret':
            K.prove(f'noraise[{sig}]', p.pc, False, replay=rep, words='shortest_int accepts every record of >= 2 samples and every percentage in (0,100) (lag = 0 included)')
            continue
        r = p.value
        srt = p.ex.__dict__.get('sorted_arrays', [])
        if len(srt) != 1 or not isinstance(r, Arr) or r.ndim != 1 or conc(r.shape[0]) != 2:
            K.fail(f'shape[{sig}]', f'result is not a pair of data values (shape {getattr(r, "shape", None)})', confirmed=False)
            continue
        s = srt[0].sorted_fun
        lag = z3.ToInt(z3.ToReal(n) * pc_ / 100)
        lo, hi = toreal(r.elem((0,))), toreal(r.elem((1,)))
        # which order statistic: the registered argmin (or any index term) - state the postcondition existentially over the path's index terms
        T = [t for t in p.ex.index_terms]
        member = z3.Or(*[z3.And(t >= 0, t + lag <= n - 1, lo == s(t), hi == s(t + lag)) for t in T]) if T else z3.BoolVal(False)
        hy = list(p.pc) + red.instances(p.ex, [], [j] + T)
        K.prove(f'member[{sig}]', hy, member, replay=rep, words='the result is (s[i], s[i+lag]) for an index 0 <= i <= len-1-lag of the sorted data, lag = floor(p*len/100)')
        # monotonicity instances of np.sort's contract at the terms used
        mono = [z3.Implies(z3.And(t >= 0, t + lag < n), s(t) <= s(t + lag)) for t in T]
        K.prove(f'ordered[{sig}]', hy + mono, lo <= hi, replay=rep, words='lo <= hi')
        K.prove(f'minimal[{sig}]', hy + [j + lag <= n - 1], hi - lo <= s(j + lag) - s(j), replay=rep,
                words='no other pair of order statistics lag apart is closer together (ties and repeated values included)')
        bad = purity_violations(p, r)
        (K.fail if bad else K.ok)(f'frame[{sig}]', '; '.join(bad) if bad else 'data not modified (sorted copy)')
    K.cover('cover', [n >= 2, pc_ > 0, pc_ < 100])


def si_contract(ex, args, kw):
    """utils.shortest_int by its contract (C18.shortest_int): two values lo <= hi of the data"""
    lo, hi = ex.newvar('V_min', 'real'), ex.newvar('V_max', 'real')
    ex.assume(lo <= hi)
    ex.__dict__['si_range'] = (lo, hi)
    return Arr([2], lambda idx: s_ite(tonum(idx[0]) == 0, lo, hi) if not isinstance(conc(idx[0]), int) else (lo if conc(idx[0]) == 0 else hi), 'float')


def native_adc(x, n, otype):
    import numpy as np
    from opticomlib.devices import ADC
    from opticomlib.utils import shortest_int
    x = np.array(x, dtype=float)
    vmin, vmax = (float(v) for v in np.array(shortest_int(x, 99.99)).ravel())
    y = ADC(x, n=n, otype=otype).signal
    step = (vmax - vmin) / (2 ** n - 1)
    codes = y if otype == 'n' else (y - vmin) / step
    ok = len(y) == len(x) and np.all(np.abs(codes - np.round(codes)) < 1e-6) and codes.min() >= -1e-6 and codes.max() <= 2 ** n - 1 + 1e-6
    inside = (x >= vmin) & (x <= vmax)
    ok = ok and np.all(np.abs(codes[inside] - (x[inside] - vmin) / step) <= 0.5 + 1e-9)
    ok = ok and np.all(np.round(codes[x > vmax]) == 2 ** n - 1) and np.all(np.round(codes[x < vmin]) == 0)
    return bool(ok), [float(codes.min()), float(codes.max())], [vmin, vmax]


def int_code_term(t, g):
    """the largest integer-sorted subterm of t that contains an application of the rounding witness g (the clipped code)"""
    best = [None, -1]

    def size(x, seen):
        if x.get_id() in seen:
            return 0
        seen.add(x.get_id())
        return 1 + sum(size(c, seen) for c in x.children())

    def has_g(x, seen):
        if x.get_id() in seen:
            return False
        seen.add(x.get_id())
        if z3.is_app(x) and x.decl().eq(g):
            return True
        return any(has_g(c, seen) for c in x.children())

    def walk(x):
        if z3.is_int(x) and has_g(x, set()):
            n = size(x, set())
            if n > best[1]:
                best[0], best[1] = x, n
            return
        for c in x.children():
            walk(c)
    walk(t)
    return best[0]


def _mk_adc(nbits):
    @clause(f'C18.adc[{nbits}]', min_obl=6)
    def f(K):
        N, i = z3.Ints('N i')
        fa = fn(K, 'devices.ADC')
        top = 2 ** nbits - 1
        for otype in ('v', 'n'):
            for form in ('esig', 'esig+noise', 'ndarray'):
                def run(ex):
                    ex.overrides['utils.shortest_int'] = si_contract
                    mk_gv(ex)
                    if form == 'ndarray':
                        x = real_arr('x', [N])
                        ex.param_provs[x.prov] = 'input'
                        tot = lambda t: toreal(x.elem((t,)))
                        arg = x
                    else:
                        arg = mk_esig(ex, 'x', N, noise=(form == 'esig+noise'))
                        tot = lambda t: toreal(arg.f['signal'].elem((t,))) + (toreal(arg.f['noise'].elem((t,))) if form == 'esig+noise' else 0)
                    return tot, ex.call_fn(fa, [arg], {'n': nbits, 'otype': otype})

                def setup(ex):
                    ex.add_index_term(i)

                def rep(m):
                    def chk():
                        import numpy as np
                        rng = np.random.default_rng(0)
                        for x in (np.concatenate((rng.normal(0, 1, 20000), [40.0, -35.0])), np.concatenate((np.linspace(0, 1, 15000), [7.0])), rng.uniform(-1, 1, 50)):
                            ok, cr, vr = native_adc(x, nbits, otype)
                            if not ok:
                                return False, cr, vr
                        return True, None, None
                    st, out = native(chk)
                    return {'confirmed': st != 'ok' or not out[0], 'inputs': 'gaussian / ramp records with outliers beyond the 99.99% range', 'observed': out}
                ps = K.paths(run, [N >= 2, i >= 0, i < N], setup)
                for p in ps:
                    sig = f'{otype},{form}][{p.signature()}'
                    if p.kind != 'ret':
                        K.prove(f'noraise[{sig}]', p.pc, False, replay=rep, words='ADC accepts every record')
                        continue
                    tot, o = p.value
                    y = o.f['signal']
                    vmin, vmax = p.ex.si_range
                    D = vmax - vmin
                    x = tot(i)
                    K.prove(f'len[{sig}]', p.pc, tonum(y.shape[0]) == N, replay=rep, words='output length = input length')
                    rints = p.ex.__dict__.get('rints', [])
                    if len(rints) != 1:
                        K.undecided(f'structure[{sig}]', f'expected exactly one rounding step, found {len(rints)}')
                        continue
                    g, pre = rints[0]
                    y_code = toreal(pre.elem((i,)))            # the value the code rounds
                    yv = y.elem((i,))
                    C = int_code_term(toz(yv), g)
                    if C is None:
                        K.undecided(f'structure[{sig}]', 'no integer code term found in the output sample')
                        continue
                    Y = z3.Real('Y')
                    hy0 = list(p.pc) + [D > 0]
                    # (1) the rounded quantity is the sample normalised to the full-scale range
                    K.prove(f'normalised[{sig}]', hy0, y_code * D == (x - vmin) * top, replay=rep, algebra=True, words='the rounded quantity is (x - V_min)/(V_max - V_min)*(2^n - 1)')
                    # (2) integer reasoning with the rounded quantity as an atom Y
                    from pyvc.vc import _symbols, _size
                    hyY = [z3.substitute(h, (y_code, Y)) for h in hy0 if isz(h)]
                    # keep the hypotheses about the atom Y (the rounding fact at index i) and the small ones (index ranges)
                    hyY = [h for h in hyY if 'Y' in _symbols([h]) or _size(h) <= 12]
                    Cy = z3.substitute(C, (y_code, Y))
                    K.prove(f'codes[{sig}]', hyY, z3.And(Cy >= 0, Cy <= top), replay=rep, words=f'every code is an integer in [0, 2^{nbits}-1] (hence at most 2^{nbits} distinct values)')
                    K.prove(f'halfstep[{sig}]', hyY + [Y >= 0, Y <= top], z3.And(z3.ToReal(Cy) - Y <= Fraction(1, 2), Y - z3.ToReal(Cy) <= Fraction(1, 2)), replay=rep,
                            words='a sample inside [V_min, V_max] (normalised value in [0, 2^n-1]) moves by at most half a quantisation step')
                    K.prove(f'saturate[{sig}]', hyY, z3.And(z3.Implies(Y > top, Cy == top), z3.Implies(Y < 0, Cy == 0)), replay=rep, words='samples beyond the range saturate at the end codes')
                    K.prove(f'range_equiv[{sig}]', [D > 0, Y * D == (x - vmin) * top], z3.And((x > vmax) == (Y > top), (x < vmin) == (Y < 0)), algebra=True,
                            words='x beyond [V_min, V_max]  <=>  normalised value beyond [0, 2^n-1]')
                    # (3) what is returned
                    if otype == 'n':
                        K.prove(f'returns_code[{sig}]', hy0, toreal(yv) == z3.ToReal(C), replay=rep, words="otype 'n' returns the integer code")
                    else:
                        Cr = z3.Real('Cr')
                        K.prove(f'returns_level[{sig}]', hy0, toreal(yv) == vmin + z3.ToReal(C) / top * D, replay=rep, algebra=True, words="otype 'v' returns V_min + code*(V_max-V_min)/(2^n-1)")
                        K.prove(f'range[{sig}]', [D > 0, Cr >= 0, Cr <= top], z3.And(vmin + Cr / top * D >= vmin, vmin + Cr / top * D <= vmax), algebra=True, words='hence output values lie inside [V_min, V_max]')
                    bad = purity_violations(p, o)
                    (K.fail if bad else K.ok)(f'frame[{sig}]', '; '.join(bad) if bad else 'input untouched, fresh output')
        # unknown otype
        def run2(ex):
            ex.overrides['utils.shortest_int'] = si_contract
            mk_gv(ex)
            return ex.call_fn(fa, [mk_esig(ex, 'x', N)], {'n': nbits, 'otype': 'q'})
        for p in K.paths(run2, [N >= 2]):
            (K.ok if p.kind == 'raise' and p.value == 'ValueError' else K.fail)(f'otype[{p.signature()}]', f"otype 'q': {p.kind} {p.value}")
    f.__name__ = f'adc_{nbits}'
    return f


for _n in range(1, 13):
    globals()[f'adc_{_n}'] = _mk_adc(_n)


@clause('C18.bounded', min_obl=1)
def bounded(K):
    thorough = K.tier == 'thorough'
    seed = K.seed

    def work():
        import numpy as np
        rng = np.random.default_rng(seed)
        bad, nn, seen = [], 0, set()
        lens = [2, 3, 10, 100, 10000, 2 ** 14] + ([2 ** 17] if thorough else [])
        for L in lens:
            t = np.arange(L)
            recs = {'gauss': rng.normal(0, 1, L), 'uniform': rng.uniform(-2, 3, L), 'sine': np.sin(2 * np.pi * t / 37.3) + 0.2, 'quantised': np.round(rng.normal(0, 2, L)), 'two-level': (rng.random(L) > 0.5) * 1.0}
            for nm, x in recs.items():
                for p in (0.5, 10, 33.3, 50, 90, 99.99):
                    nn += 1
                    seen.add(('si', nm, L, p))
                    try:
                        ok, got, best = native_si(x, p)
                    except Exception as e:
                        ok, got, best = False, f'{type(e).__name__}: {e}'[:80], None
                    if not ok:
                        bad.append({'fn': 'shortest_int', 'dist': nm, 'len': L, 'p': p, 'got': got, 'best': best})
                if np.ptp(x) == 0 or L < 3:
                    continue
                for n in ((1, 4, 8, 12) if not thorough else range(1, 13)):
                    for otype in ('v', 'n'):
                        nn += 1
                        seen.add(('adc', nm, L, n, otype))
                        try:
                            ok, cr, vr = native_adc(x, n, otype)
                        except Exception as e:
                            ok, cr, vr = False, f'{type(e).__name__}: {e}'[:80], None
                        if not ok:
                            bad.append({'fn': 'ADC', 'dist': nm, 'len': L, 'n': n, 'otype': otype, 'codes': cr, 'range': vr})
        return {'n': nn, 'distinct': len(seen), 'bad': bad[:6], 'nbad': len(bad)}
    st, r = native(work, 2400)
    K.bounded('records', st == 'ok' and r['nbad'] == 0, {'evaluations': r['n'] if st == 'ok' else 0, 'distinct_nontrivial': r['distinct'] if st == 'ok' else 0,
              'bound': 'lengths 2..2^14 (thorough 2^17) x 5 amplitude distributions x 6 percentages; ADC n in {1,4,8,12} (thorough 1..12) x 2 otypes', 'samples': [{'dist': 'quantised', 'len': 100, 'p': 50}],
              'failures': r if st == 'ok' else [st, r]})


def frame_runs(K):
    N = z3.Int('N')
    fa = fn(K, 'devices.ADC')

    def run(ex):
        ex.overrides['utils.shortest_int'] = si_contract
        mk_gv(ex)
        return ex.call_fn(fa, [mk_esig(ex, 'x', N, noise=True)], {'n': 4})
    return [('devices.ADC', run, [N >= 2], None)]
