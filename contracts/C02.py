"""C02 - time/frequency transforms are exact inverses on the sampling-rate FFT grid.

Under contract (typing.py): electrical_signal.__call__ (inherited by optical_signal), w, fs, power, abs.
numpy.fft.fft / ifft are uninterpreted row-wise operators with the axioms: mutually inverse, Parseval; fftshift / ifftshift are
index permutations (assumed numpy contracts, audited).  Over exact complex numbers.
"""
import z3
from pyvc.vc import clause, mval
from pyvc.values import *
from pyvc import reduce as red, opaque, extern
from .common import *
from .C01 import wf, And_, mk_obj

LEVEL = 'proof'
LEVEL_TEXT = ('Proof over exact complex arithmetic with fft/ifft as mutually inverse linear operators: for every length N >= 1 (odd included), one/two polarisations, with/without noise and both shift '
              'settings the real __call__ returns exactly fft / ifft of signal and noise along the last axis (fftshift-ed / ifftshift-ed when asked), of the same class, polarisation count and '
              'length; x("w")("t") = x; the opposite numpy shift undoes shift=True for every N; Parseval follows from the axiom for the transform actually applied; w() = 2*pi*fftfreq(N)*gv.fs and '
              'power() = mean |signal+noise|^2. Rounding-level behaviour is a bounded numerical check.')
LEVEL_NOTE = 'numpy.fft axioms (inverse pair, Parseval, last-axis/row-wise action) and the fftshift/ifftshift index maps are assumed and audited numerically, not proved; floats as reals'
EXPLANATION = LEVEL_TEXT
BOUNDED_RULE = 'numeric round trip / Parseval / shift inversion / w axis / power on random signals: lengths 1,2,3,4,5,7,8,16,17,64,127,128,1021,1024, both layouts, noise on/off, several gv(sps,R); distinct = distinct (layout, N, dtype, gv)'

CASES = [('electrical_signal', 1, 'float'), ('electrical_signal', 1, 'complex'), ('optical_signal', 1, 'complex'), ('optical_signal', 2, 'complex')]


def spec_transform(ex, arr, domain, shift):
    op = 'fft' if domain in ('w', 'f') else 'ifft'
    y = opaque.apply_last_axis(ex, op, (), arr)
    if shift:
        y = extern.np_fftshift(ex, y, axes=-1) if op == 'fft' else extern.np_ifftshift(ex, y, axes=-1)
    return y


def idx_of(npol, i):
    return (i,) if npol == 1 else (z3.Int('pol'), i)


def pol_hyp(npol):
    return [z3.Int('pol') >= 0, z3.Int('pol') < 2] if npol == 2 else []


def native_transform_check():
    import numpy as np
    from opticomlib.typing import electrical_signal as E, optical_signal as O, gv
    rng = np.random.default_rng(0)
    bad = []
    for N in (1, 2, 3, 5, 8, 17):
        for cls, shape in ((E, (N,)), (O, (N,)), (O, (2, N))):
            s = rng.normal(size=shape) + (1j * rng.normal(size=shape) if cls is O else 0)
            nz = rng.normal(size=shape) * 0.1
            x = cls(s, nz)
            for shift in (False, True):
                X = x('w', shift)
                ref = np.fft.fft(s, axis=-1)
                refn = np.fft.fft(nz, axis=-1)
                if shift:
                    ref, refn = np.fft.fftshift(ref, axes=-1), np.fft.fftshift(refn, axes=-1)
                ok = type(X) is cls and np.allclose(X.signal, ref) and np.allclose(X.noise, refn)
                T = x('t', shift)
                reft = np.fft.ifft(s, axis=-1)
                if shift:
                    reft = np.fft.ifftshift(reft, axes=-1)
                ok = ok and np.allclose(T.signal, reft) and np.allclose(x('w')('t').signal, s)
                ok = ok and np.allclose(np.fft.ifftshift(x('w', True).signal, axes=-1), x('w').signal) and np.allclose(np.fft.fftshift(x('t', True).signal, axes=-1), x('t').signal)
                if not ok:
                    bad.append([cls.__name__, shape, shift])
            if not np.allclose(x.w(), 2 * np.pi * np.fft.fftfreq(N) * gv.fs) or not np.allclose(x.power(), np.mean(np.abs(s + nz) ** 2, axis=-1)):
                bad.append([cls.__name__, shape, 'w/power'])
    return not bad, bad[:5]


def rep(m):
    st, out = native(native_transform_check)
    return {'confirmed': st != 'ok' or not out[0], 'inputs': 'random signals, N in {1,2,3,5,8,17}, electrical / optical 1- and 2-polarisation with noise, both shift settings', 'observed': out}


def _mk_call(cls, npol, kind):
    @clause(f'C02.call[{cls},{npol}pol,{kind}]', min_obl=12)
    def f(K):
        N, i = z3.Ints('N i')
        for noise in (False, True):
            for domain in ('w', 'f', 't'):
                for shift in (False, True):
                    def run(ex):
                        mk_gv(ex)
                        x = mk_obj(ex, cls, 'x', N, npol, noise, kind)
                        spec = {part: spec_transform(ex, x.f[part], domain, shift) for part in ('signal', 'noise') if x.f[part] is not None}
                        return x, spec, ex.call(ex.get_method(x, '__call__'), [domain, shift], {})
                    ps = K.paths(run, [N >= 1, i >= 0, i < N])
                    for p in ps:
                        sig = f'noise={noise},{domain},shift={shift}][{p.signature()}'
                        if p.kind != 'ret':
                            K.prove(f'noraise[{sig}]', p.pc, False, replay=rep, words='transforming to a known domain never raises')
                            continue
                        x, spec, r = p.value
                        K.prove(f'wf[{sig}]', p.pc, And_(wf(r, N)), replay=rep, words='result satisfies the container contract, same length')
                        if r.cls != cls or (cls == 'optical_signal' and conc(r.f.get('n_pol')) != npol):
                            K.fail(f'class[{sig}]', f'class / n_pol changed: {r.cls} {r.f.get("n_pol")}')
                            continue
                        idx = idx_of(npol, i)
                        hy = list(p.pc) + pol_hyp(npol)
                        for part in ('signal', 'noise'):
                            if (x.f[part] is None) != (r.f[part] is None):
                                K.fail(f'{part}_presence[{sig}]', f'{part} presence changed by the transform')
                            elif x.f[part] is not None and r.f[part].ndim == spec[part].ndim:
                                K.prove(f'{part}[{sig}]', hy, eq_scalar(r.f[part].elem(idx), spec[part].elem(idx)), replay=rep,
                                        words=f'{part} = ' + ('fft' if domain != 't' else 'ifft') + ' along the last axis' + (', then ' + ('fftshift' if domain != 't' else 'ifftshift') if shift else '') + ' (row-wise, signal and noise alike)')
                        bad = purity_violations(p, r)
                        (K.fail if bad else K.ok)(f'frame[{sig}]', '; '.join(bad) if bad else 'operand untouched, fresh result')
            # round trip and shift inversion
            def run2(ex):
                mk_gv(ex)
                x = mk_obj(ex, cls, 'x', N, npol, noise, kind)
                call = lambda o, d, s=False: ex.call(ex.get_method(o, '__call__'), [d, s], {})
                rt = call(call(x, 'w'), 't')
                rt2 = call(call(x, 't'), 'f')
                ws, w0 = call(x, 'w', True), call(x, 'w')
                ts, t0 = call(x, 't', True), call(x, 't')
                un_w = {part: extern.np_ifftshift(ex, ws.f[part], axes=-1) for part in ('signal', 'noise') if ws.f[part] is not None}
                un_t = {part: extern.np_fftshift(ex, ts.f[part], axes=-1) for part in ('signal', 'noise') if ts.f[part] is not None}
                return x, rt, rt2, w0, t0, un_w, un_t
            for p in K.paths(run2, [N >= 1, i >= 0, i < N]):
                sig = f'noise={noise}][{p.signature()}'
                if p.kind != 'ret':
                    K.prove(f'roundtrip.noraise[{sig}]', p.pc, False, replay=rep)
                    continue
                x, rt, rt2, w0, t0, un_w, un_t = p.value
                idx = idx_of(npol, i)
                hy = list(p.pc) + pol_hyp(npol)
                for part in ('signal', 'noise'):
                    if x.f[part] is None:
                        continue
                    src = x.f[part].elem(idx)
                    K.prove(f'roundtrip.wt.{part}[{sig}]', hy, eq_scalar(rt.f[part].elem(idx), s_cast(src, 'complex')), replay=rep, words="x('w')('t') reproduces x (ifft o fft = id)")
                    K.prove(f'roundtrip.tf.{part}[{sig}]', hy, eq_scalar(rt2.f[part].elem(idx), s_cast(src, 'complex')), replay=rep, words="x('t')('f') reproduces x (fft o ifft = id)")
                    K.prove(f'unshift.w.{part}[{sig}]', hy, eq_scalar(un_w[part].elem(idx), w0.f[part].elem(idx)), replay=rep,
                            words="ifftshift(x('w', shift=True)) = x('w') for every length N, odd included")
                    K.prove(f'unshift.t.{part}[{sig}]', hy, eq_scalar(un_t[part].elem(idx), t0.f[part].elem(idx)), replay=rep,
                            words="fftshift(x('t', shift=True)) = x('t') for every length N, odd included")
                # Parseval for the transform actually applied (axiom about numpy's unnormalised forward fft)
                facts = opaque.parseval_facts(p.ex)
                X = w0.f['signal']
                for r_ in range(npol):
                    row = (lambda a, r_=r_: a if npol == 1 else Arr([a.shape[1]], lambda ix: a.elem((r_, ix[0])), a.kind))
                    lhs = toreal(opaque.sumsq(p.ex, row(X)))
                    rhs = toreal(N) * toreal(opaque.sumsq(p.ex, row(x.f['signal'])))
                    K.prove(f'parseval[{sig},pol{r_}]', list(p.pc) + facts, lhs == rhs, replay=rep, words="sum |X|^2 = N sum |x|^2 per polarisation for X = x('w').signal (the forward transform is numpy's unnormalised fft)")
        # unknown domain
        def run3(ex):
            mk_gv(ex)
            return ex.call(ex.get_method(mk_obj(ex, cls, 'x', N, npol, False, kind), '__call__'), ['z'], {})
        for p in K.paths(run3, [N >= 1]):
            (K.ok if p.kind == 'raise' and p.value == 'ValueError' else K.fail)(f'domain[{p.signature()}]', f"unknown domain: {p.kind} {p.value}")
    f.__name__ = f'call_{cls}_{npol}_{kind}'
    return f


for _c, _n, _k in CASES:
    _f = _mk_call(_c, _n, _k)
    globals()[_f.__name__] = _f


@clause('C02.w_power', min_obl=10)
def w_power(K):
    N, i = z3.Ints('N i')
    for cls, npol, kind in CASES:
        for noise in (False, True):
            def run(ex):
                g = mk_gv(ex)
                x = mk_obj(ex, cls, 'x', N, npol, noise, kind)
                w0 = ex.call(ex.get_method(x, 'w'), [], {})
                w1 = ex.call(ex.get_method(x, 'w'), [True], {})
                pw = ex.call(ex.get_method(x, 'power'), [], {})
                return g, x, w0, w1, pw
            for p in K.paths(run, [N >= 1, i >= 0, i < N]):
                sig = f'{cls},{npol}pol,{kind},noise={noise}][{p.signature()}'
                if p.kind != 'ret':
                    K.prove(f'noraise[{sig}]', p.pc, False, replay=rep)
                    continue
                g, x, w0, w1, pw = p.value
                bad = purity_violations(p, (w0, w1))
                (K.fail if bad else K.ok)(f'frame[{sig}]', '; '.join(bad) if bad else 'w() and power() read gv and the object only: no hidden state, nothing written')
                fs = toreal(g.f['fs'])
                ff = lambda k: 2 * PI * UF['fftfreq'](N, k) * fs
                K.prove(f'w.len[{sig}]', p.pc, z3.And(tonum(w0.shape[0]) == N, tonum(w1.shape[0]) == N), replay=rep, words='w() has one entry per sample')
                K.prove(f'w.value[{sig}]', p.pc, toreal(w0.elem((i,))) == ff(i), replay=rep, words='w()[i] = 2*pi*fftfreq(N)[i]*gv.fs for the sampling rate now in gv')
                h = N / 2
                src = z3.If(i - h >= 0, i - h, i - h + N)
                K.prove(f'w.shift[{sig}]', p.pc, toreal(w1.elem((i,))) == ff(src), replay=rep, words='w(shift=True) = fftshift(w())')
                # power = mean over the last axis of |signal+noise|^2
                tot = lambda ix: s_add(x.f['signal'].elem(ix), x.f['noise'].elem(ix)) if noise else x.f['signal'].elem(ix)
                body = Arr([N] if npol == 1 else [2, N], (lambda ix: opaque._abs2(tot(ix))), 'float')
                spec = red.reduce_(p.ex, 'mean', body, -1)
                for r_ in range(npol):
                    got = pw if npol == 1 else pw.elem((r_,))
                    sp = spec if npol == 1 else spec.elem((r_,))
                    K.prove(f'power[{sig},pol{r_}]', p.pc, toreal(unwrap0(got)) == toreal(sp), replay=rep, words='power() = mean |signal+noise|^2 per polarisation')


@clause('C02.bounded', min_obl=1)
def bounded(K):
    thorough = K.tier == 'thorough'
    seed = K.seed

    def work():
        import numpy as np
        from opticomlib.typing import electrical_signal as E, optical_signal as O, gv
        rng = np.random.default_rng(seed)
        bad, n, seen = [], 0, set()
        Ns = [1, 2, 3, 4, 5, 7, 8, 16, 17, 64, 127, 128, 1021, 1024] + ([4096, 9973] if thorough else [])
        for (sps, R) in ((16, 1e9), (7, 2.5e9), (33, 10e9)):
            gv(sps=sps, R=R)
            for N in Ns:
                for cls, shape, cplx in ((E, (N,), False), (E, (N,), True), (O, (N,), True), (O, (2, N), True)):
                    for noise in (False, True):
                        s = rng.normal(size=shape) + (1j * rng.normal(size=shape) if cplx else 0)
                        nz = rng.normal(size=shape) * 0.1 if noise else None
                        x = cls(s, nz)
                        n += 1
                        seen.add((cls.__name__, shape, cplx, noise, sps))
                        rt = x('w')('t')
                        X = x('w')
                        tol = 1e-9 * max(1.0, np.abs(s).max())
                        ok = np.abs(rt.signal - s).max() <= tol and (not noise or np.abs(rt.noise - nz).max() <= tol)
                        ok = ok and np.allclose(np.sum(np.abs(X.signal) ** 2, axis=-1), N * np.sum(np.abs(s) ** 2, axis=-1), rtol=1e-9)
                        ok = ok and np.allclose(np.fft.ifftshift(x('w', True).signal, axes=-1), X.signal) and np.allclose(np.fft.fftshift(x('t', True).signal, axes=-1), x('t').signal)
                        ok = ok and np.allclose(x.w(), 2 * np.pi * np.fft.fftfreq(N) * gv.fs, rtol=1e-12) and np.allclose(x.w(True), np.fft.fftshift(2 * np.pi * np.fft.fftfreq(N) * gv.fs), rtol=1e-12)
                        tot = s + (nz if noise else 0)
                        ok = ok and np.allclose(x.power(), np.mean(np.abs(tot) ** 2, axis=-1), rtol=1e-12)
                        # any truthy shift flag (numpy bool from a comparison, 1) behaves like True
                        for flag in (np.bool_(True), 1):
                            ok = ok and np.array_equal(x('w', flag).signal, x('w', True).signal) and np.array_equal(x('t', flag).signal, x('t', True).signal)
                        if not ok:
                            bad.append({'cls': cls.__name__, 'shape': shape, 'noise': noise, 'gv': (sps, R)})
        gv.clean()
        return {'n': n, 'distinct': len(seen), 'bad': bad[:5], 'nbad': len(bad)}
    st, r = native(work, 1800)
    K.bounded('numeric', st == 'ok' and r['nbad'] == 0, {'evaluations': r['n'] if st == 'ok' else 0, 'distinct_nontrivial': r['distinct'] if st == 'ok' else 0,
              'bound': '14 lengths (odd, prime, powers of two) x 4 layouts x noise on/off x 3 gv configurations; tolerance 1e-9 relative', 'samples': [{'cls': 'optical_signal', 'shape': [2, 127], 'noise': True}],
              'failures': r if st == 'ok' else [st, r]})


def frame_runs(K):
    N = z3.Int('N')
    out = []
    for cls, npol, kind in CASES[1:]:
        def run(ex, cls=cls, npol=npol, kind=kind):
            mk_gv(ex)
            return ex.call(ex.get_method(mk_obj(ex, cls, 'x', N, npol, True, kind), '__call__'), ['w', True], {})
        out.append((f'{cls}.__call__[{npol}pol]', run, [N >= 1], None))
    return out
