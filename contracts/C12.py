"""C12 - PPM encode/decode is a bijection on whole symbols; HDD/SDD emit valid codewords.

Under contract (ppm.py): PPM_ENCODER, PPM_DECODER, HDD (both for-loops through invariants), SDD; utils.dec2bin enters
PPM_DECODER through its contract (proved in C19.dec2bin[k]): callers are checked against the callee's postcondition.
P-fin: each order M in {2,4,...,256} is a separate loop-free instance with symbolic sequence length and contents.
"""
import z3
from pyvc.vc import clause, mval
from pyvc.values import *
from pyvc.loops import ForWhereSpec
from pyvc import reduce as red
from .common import *

LEVEL = 'proof'
LEVEL_TEXT = ('Proof for every sequence length and content, per order M in {2,...,256}: the real PPM_ENCODER, PPM_DECODER, HDD and SDD bodies are executed symbolically; one ON slot per block '
              'at the big-endian value of the symbol bits, decode(encode(b)) = b truncated to whole symbols, HDD validity / identity on one-hot symbols / kept slot was ON (loop invariants over '
              'np.where enumerations, for all random choices), SDD = argmax of slot integrals, and the ValueErrors are discharged. String containers are bounded.')
LEVEL_NOTE = ('np.where = increasing enumeration, np.random.randint/choice range contracts, reshape/sum/argmax index maps are assumed numpy contracts; dec2bin enters through its contract '
              '(C19); str inputs only bounded')
EXPLANATION = LEVEL_TEXT
BOUNDED_RULE = 'exhaustive bit strings <= 12 (encoder/decoder, all container forms), all slot patterns <= 16 slots for M <= 8 (HDD, 3 numpy seeds), random long sequences; distinct = distinct (M, pattern)'
ORDERS = [2, 4, 8, 16, 32, 64, 128, 256]
ASSUMPTIONS = ['C12.sdd: the non-linear arithmetic facts (S*M*sps) mod (M*sps) = 0 and (S*M*sps) div sps = S*M are supplied to the solver as lemmas']


def dec2bin_contract(ex, args, kw):
    """utils.dec2bin(v, k) by its contract (C19.dec2bin[k], k <= 16): requires 0 <= v < 2^k; returns the k big-endian digits"""
    v = args[0]
    k = args[1] if len(args) > 1 else kw.get('digits', 8)
    k = conc(k)
    if not isinstance(k, int) or not 1 <= k <= 16:
        raise Unsupported('dec2bin contract is proved for 1 <= digits <= 16')
    vz = tonum(v)
    if not ex.entails(z3.And(vz >= 0, vz <= 2 ** k - 1)):
        if ex.branch(vz > 2 ** k - 1):
            raise SymRaise('ValueError')
        if not ex.entails(vz >= 0):
            raise Unsupported('dec2bin contract: negative argument')
    return Arr([k], lambda idx: (vz / (2 ** (k - 1 - conc(idx[0])))) % 2 if isinstance(conc(idx[0]), int) else _digit(vz, k, idx[0]), 'int', np_dtype='uint8')


def _digit(vz, k, t):
    res = (vz / 1) % 2
    for j in range(k - 1):
        res = z3.If(tonum(t) == j, (vz / (2 ** (k - 1 - j))) % 2, res)
    return res


def sym_value(bits, s, k):
    """big-endian value of bits[s*k .. s*k+k-1]"""
    return z3.Sum([tonum(bits.elem((s * k + t,))) * 2 ** (k - 1 - t) for t in range(k)])


def native_ppm(fname, bits, M, seed=0):
    import numpy as np
    from opticomlib import ppm
    np.random.seed(seed)
    return [int(x) for x in getattr(ppm, fname)(np.array(bits, dtype=np.uint8), M).data]


def ref_encode(bits, M):
    k = M.bit_length() - 1
    out = []
    for s in range(len(bits) // k):
        v = int(''.join(map(str, bits[s * k:(s + 1) * k])), 2)
        out += [1 if j == v else 0 for j in range(M)]
    return out


def _mk_enc(M):
    k = M.bit_length() - 1

    @clause(f'C12.enc[{M}]', min_obl=4)
    def f(K):
        n, s, j = z3.Ints('n s j')
        fe, fd = fn(K, 'ppm.PPM_ENCODER'), fn(K, 'ppm.PPM_DECODER')

        def rep(m):
            nv = mval(m, n)
            if nv > 64:
                return {'confirmed': False}
            bits = [1 if mval(m, bool_fun('b')(z3.IntVal(t))) else 0 for t in range(nv)]
            def chk():
                enc = native_ppm('PPM_ENCODER', bits, M)
                dec = native_ppm('PPM_DECODER', enc, M) if enc else []
                return enc == ref_encode(bits, M) and dec == bits[:len(bits) // k * k], enc[:64], dec[:64]
            st, out = native(chk)
            return {'confirmed': st != 'ok' or not out[0], 'inputs': {'bits': bits, 'M': M}, 'observed': out}
        small = [n <= 3 * k + 1]
        ps = K.paths(lambda ex: (lambda b: (b, ex.call_fn(fe, [b, M], {})))(mk_binseq(ex, 'b', n)), [n >= k, s >= 0, s < n / k, j >= 0, j < M])
        for p in ps:
            sig = p.signature()
            if p.kind != 'ret':
                K.prove(f'noraise[{sig}]', p.pc, False, replay=rep, small=small, words='encoder accepts every bit sequence with at least one symbol')
                continue
            b, o = p.value
            d = o.f['data']
            K.prove(f'len[{sig}]', p.pc, tonum(d.shape[0]) == (n / k) * M, replay=rep, small=small, words='floor(len/k) blocks of M slots (trailing len mod k bits dropped)')
            K.prove(f'onehot_at_value[{sig}]', p.pc, (tonum(d.elem((s * M + j,))) == 1) == (j == sym_value(b.f['data'], s, k)), replay=rep, small=small,
                    words='slot j of block s is ON iff j is the big-endian value of bits s*k..s*k+k-1 (hence exactly one ON slot per block)')
            K.prove(f'binary[{sig}]', p.pc, z3.Or(tonum(d.elem((s * M + j,))) == 0, tonum(d.elem((s * M + j,))) == 1), words='output is a valid binary sequence')
            bad = purity_violations(p, o)
            (K.fail if bad else K.ok)(f'frame[{sig}]', '; '.join(bad) if bad else 'input untouched, fresh output')
            for q, (pc, cond, txt, where) in enumerate(p.ex.side):
                if 'scatter' in txt or 'fancy index' in txt:
                    K.prove(f'index_defined.{q}[{sig}]', pc, cond, replay=rep, small=small, words='every ON-slot index written by the encoder stays inside its own block and inside the output (' + txt + ' never happens)')

        # round trip: decode(encode(b)) = b[: floor(n/k)*k]
        i = z3.Int('i')

        def run_rt(ex):
            b = mk_binseq(ex, 'b', n)
            enc = ex.call_fn(fe, [b, M], {})
            ed = enc.f['data']
            # structural hint for np.where (verified there by the solver, never trusted): one ON slot per block at the symbol value
            ex.where_hints = [(M, lambda t: sym_value(b.f['data'], tonum(t), k), tonum(ed.shape[0]) / M)]
            ex.overrides['utils.dec2bin'] = dec2bin_contract
            return b, ex.call_fn(fd, [enc, M], {})
        ps = K.paths(run_rt, [n >= k, i >= 0, i < (n / k) * k])
        for p in ps:
            sig = p.signature()
            if p.kind != 'ret':
                K.prove(f'roundtrip.noraise[{sig}]', p.pc, False, replay=rep, small=small, words='decoding an encoder output never raises')
                continue
            b, o = p.value
            d = o.f['data']
            K.prove(f'roundtrip.len[{sig}]', p.pc, tonum(d.shape[0]) == (n / k) * k, replay=rep, small=small, words='decoded length = whole symbols * k')
            K.prove(f'roundtrip.value[{sig}]', p.pc, tonum(d.elem((i,))) == tonum(b.f['data'].elem((i,))), replay=rep, small=small,
                    words='PPM_DECODER(PPM_ENCODER(b)) = b truncated to whole symbols')
    f.__name__ = f'enc_{M}'
    return f


for _M in ORDERS:
    globals()[f'enc_{_M}'] = _mk_enc(_M)


# ------------------------------------------------------------------ HDD
def setup_hdd(ex, M, inp_holder):
    """loop invariants of the two repair loops.  Block t of `output`:
         loop 1 (symbols with no ON slot), bound b:   s(t)=0 and t<b  -> exactly one ON slot;   otherwise equal to the input block
         loop 2 (symbols with several ON slots):      s(t)=0 -> one ON slot;  s(t)>1 and t<b -> one ON slot, and it was ON in the input;  otherwise equal to the input block"""
    def block_sum(arr, t):
        return z3.Sum([z3.If(toz(tobool(arr.elem((t * M + j,)))), 1, 0) for j in range(M)])

    def block_eq(a, b, t):
        return z3.And(*[toz(tobool(a.elem((t * M + j,)))) == toz(tobool(b.elem((t * M + j,)))) for j in range(M)])

    def block_subset(a, b, t):
        return z3.And(*[z3.Implies(toz(tobool(a.elem((t * M + j,)))), toz(tobool(b.elem((t * M + j,))))) for j in range(M)])

    def havoc(ex, env):
        out = env.get('output')
        if not isinstance(out, Arr) or out.view:
            raise Unsupported('HDD loop invariant names the local `output`, which is not an owned array')
        H = z3.Function(f'hdd_out!{next(ex.fresh)}', z3.IntSort(), z3.BoolSort())
        out.elem = lambda idx: H(tonum(idx[0]))

    def mk_inv(phase):
        def inv(ex, env, bound):
            out_, inp_ = env.get('output'), env.get('input')
            if not isinstance(out_, Arr) or not isinstance(inp_, Arr):
                raise Unsupported('HDD loop invariant names the locals `output` and `input`')
            inp_holder['input'] = inp_
            S = tonum(inp_.shape[0]) / M
            # snapshot of the arrays' contents now (the Arr objects are mutated by stores / havoc later)
            out = Arr(out_.shape, out_.elem, out_.kind)
            inp = Arr(inp_.shape, inp_.elem, inp_.kind)

            def fa(t):
                s_t = block_sum(inp, t)
                one = block_sum(out, t) == 1
                same = block_eq(out, inp, t)
                if phase == 1:
                    body = z3.If(z3.And(s_t == 0, t < bound), one, same)
                else:
                    body = z3.If(s_t == 0, one, z3.If(z3.And(s_t > 1, t < bound), z3.And(one, block_subset(out, inp, t)), same))
                return z3.Implies(z3.And(t >= 0, t < S), body)
            return [tonum(out.shape[0]) == tonum(inp.shape[0])], [fa]
        return inv
    ex.loopspecs[('ppm.HDD', 0)] = ForWhereSpec('C12.hdd.loop1', havoc, mk_inv(1))
    ex.loopspecs[('ppm.HDD', 1)] = ForWhereSpec('C12.hdd.loop2', havoc, mk_inv(2))
    return block_sum, block_eq, block_subset


def _mk_hdd(M):
    @clause(f'C12.hdd[{M}]', min_obl=8)
    def f(K):
        n, t = z3.Ints('n t')
        fh = fn(K, 'ppm.HDD')
        holder = {}
        helpers = {}

        def setup(ex):
            helpers['f'] = setup_hdd(ex, M, holder)
            ex.add_index_term(t)

        def run(ex):
            b = mk_binseq(ex, 'x', n)
            return b, ex.call_fn(fh, [b, M], {})

        def rep(m):
            nv = mval(m, n) if m is not None else 2 * M
            if not isinstance(nv, int) or nv > 128 or nv % M:
                nv = 2 * M
            import itertools
            def chk():
                import numpy as np, random
                rng = random.Random(0)
                pats = [[1 if (m is not None and mval(m, bool_fun('x')(z3.IntVal(q)))) else 0 for q in range(nv)]]
                for _ in range(60):
                    pats.append([rng.choice([0, 0, 1]) for _ in range(nv)])
                for pat in pats:
                    for seed in (0, 1, 2):
                        out = native_ppm('HDD', pat, M, seed)
                        for s in range(nv // M):
                            blk_i, blk_o = pat[s * M:(s + 1) * M], out[s * M:(s + 1) * M]
                            ok = sum(blk_o) == 1 and (blk_o == blk_i if sum(blk_i) == 1 else True) and (all(o <= i_ for o, i_ in zip(blk_o, blk_i)) if sum(blk_i) > 1 else True)
                            if not ok or len(out) != nv:
                                return False, pat, out, seed
                return True, None, None, None
            st, out = native(chk)
            return {'confirmed': st != 'ok' or not out[0], 'inputs': {'pattern': out[1] if st == 'ok' else None, 'M': M, 'numpy_seed': out[3] if st == 'ok' else None}, 'observed': out[2] if st == 'ok' else out}
        ps = K.paths(run, [n >= M, n % M == 0, t >= 0, t < n / M], setup, expect_loops=True)
        nret = 0
        for p in ps:
            sig = p.signature()
            if p.kind == 'end':
                K.discharge_loop_obls(p, replay=rep)
                bad = purity_violations(p, None)
                (K.fail if bad else K.ok)(f'frame.iteration[{sig}]', '; '.join(bad) if bad else 'the loop body stores only into the local copy')
                continue
            if p.kind == 'raise':
                K.prove(f'noraise[{sig}]', p.pc, False, replay=rep, words='HDD accepts every slot sequence made of whole symbols')
                continue
            nret += 1
            block_sum, block_eq, block_subset = helpers['f']
            b, o = p.value
            d, x = o.f['data'], b.f['data']
            bo = lambda arr, tt: z3.Sum([tonum(arr.elem((tt * M + j,))) for j in range(M)])
            s_t = bo(x, t)
            hy = list(p.pc)
            K.prove(f'post.len[{sig}]', hy, tonum(d.shape[0]) == n, replay=rep, words='same length')
            K.prove(f'post.valid[{sig}]', hy, bo(d, t) == 1, replay=rep, words='exactly one ON slot in every symbol')
            K.prove(f'post.identity[{sig}]', hy + [s_t == 1], z3.And(*[tonum(d.elem((t * M + j,))) == tonum(x.elem((t * M + j,))) for j in range(M)]), replay=rep,
                    words='a symbol that already has exactly one ON slot is unchanged')
            K.prove(f'post.subset[{sig}]', hy + [s_t > 1], z3.And(*[z3.Implies(tonum(d.elem((t * M + j,))) == 1, tonum(x.elem((t * M + j,))) == 1) for j in range(M)]), replay=rep,
                    words='when several slots were ON, the kept slot is one of them')
            bad = purity_violations(p, o)
            (K.fail if bad else K.ok)(f'frame[{sig}]', '; '.join(bad) if bad else 'input untouched, fresh output')
            # definedness of the random choices (np.random.choice from a non-empty selection, randint range)
        for p in ps:
            for q, (pc, cond, txt, where) in enumerate(p.ex.side):
                if 'choice' in txt or 'randint' in txt:
                    K.prove(f'defined.{q}[{p.signature()}]', pc, cond, replay=rep, words=txt + ' never happens')
        if nret == 0:
            K.undecided('paths', 'no normal return path')
        # rejections
        ps = K.paths(run, [n >= 1, n % M != 0], setup)
        for p in ps:
            (K.ok if p.kind == 'raise' and p.value == 'ValueError' else K.fail)(f'reject.ragged[{p.signature()}]', f'length not a multiple of M: {p.kind} {p.value}')
    f.__name__ = f'hdd_{M}'
    return f


for _M in ORDERS:
    globals()[f'hdd_{_M}'] = _mk_hdd(_M)


@clause('C12.reject', min_obl=6)
def reject(K):
    n = z3.Int('n')
    for name in ('HDD', 'SDD'):
        f = fn(K, 'ppm.' + name)
        for M in (3, 5, 6, 12, 100):
            def run(ex):
                mk_gv(ex, sps=z3.Int('sps'))
                arg = mk_binseq(ex, 'x', n) if name == 'HDD' else mk_esig(ex, 'x', n)
                return ex.call_fn(f, [arg, M], {})
            ps = K.paths(run, [n >= 1], allow_unsupported=True)
            for p in ps:
                (K.ok if p.kind == 'raise' and p.value == 'ValueError' else K.fail)(f'{name}.order[{M}][{p.signature()}]', f'M={M} is not a power of two: {p.kind} {p.value}')


def _mk_sdd(M):
    @clause(f'C12.sdd[{M}]', min_obl=3)
    def f(K):
        S_, sps, t, j = z3.Ints('S sps t j')
        fs_ = fn(K, 'ppm.SDD')
        for noise in (False, True):
            def run(ex):
                mk_gv(ex, sps=sps)
                x = mk_esig(ex, 'x', S_ * M * sps, noise=noise)
                return x, ex.call_fn(fs_, [x, M], {})
            # arithmetic lemma supplied to the solver (non-linear: S*(M*sps) is a multiple of M*sps)
            lem = [(S_ * M * sps) % (M * sps) == 0, (S_ * M * sps) / (M * sps) == S_, (S_ * M * sps) / sps == S_ * M, (S_ * M * sps) % sps == 0]
            ps = K.paths(run, [S_ >= 1, sps >= 1, t >= 0, t < S_, j >= 0, j < M] + lem)
            for p in ps:
                sig = f'noise={noise}][{p.signature()}'
                if p.kind != 'ret':
                    K.prove(f'noraise[{sig}]', p.pc, False, words='SDD accepts every waveform made of whole symbols')
                    continue
                x, o = p.value
                d = o.f['data']
                # slot integrals are the registered sum reductions of the waveform over sps samples
                sums = [r for r in p.ex.__dict__.get('reds', []) if r.op == 'sum' and r.nouter == 1]
                if len(sums) != 1:
                    K.undecided(f'integrals[{sig}]', f'expected one slot integration, found {len(sums)}')
                    continue
                E = lambda slot: toreal(sums[0].result((slot,)))
                tot = lambda q: toreal(x.f['signal'].elem((q,))) + (toreal(x.f['noise'].elem((q,))) if noise else 0)
                q = z3.Int('q')
                K.prove(f'integrand[{sig}]', list(p.pc) + [q >= 0, q < sps], toreal(sums[0].body((t * M + j,), q)) == tot((t * M + j) * sps + q),
                        words='slot integral = sum of signal+noise over the sps samples of the slot')
                first_max = z3.And(*[z3.Implies(z3.IntVal(u) < j, E(t * M + u) < E(t * M + j)) for u in range(M)], *[z3.Implies(z3.IntVal(u) > j, E(t * M + u) <= E(t * M + j)) for u in range(M)])
                K.prove(f'argmax[{sig}]', p.pc, (tonum(d.elem((t * M + j,))) == 1) == first_max,
                        words='slot j of symbol t is ON iff its integrated energy is the (first) largest of the symbol: exactly one ON slot, identity on noiseless codeword waveforms')
                K.prove(f'len[{sig}]', p.pc, tonum(d.shape[0]) == S_ * M, words='one decision per slot')
                bad = purity_violations(p, o)
                (K.fail if bad else K.ok)(f'frame[{sig}]', '; '.join(bad) if bad else 'input untouched, fresh output')
        # ragged length
        n = z3.Int('n')

        def run2(ex):
            mk_gv(ex, sps=sps)
            return ex.call_fn(fs_, [mk_esig(ex, 'x', n), M], {})
        for p in K.paths(run2, [n >= 1, sps >= 1, n % (M * sps) != 0]):
            (K.ok if p.kind == 'raise' and p.value == 'ValueError' else K.fail)(f'reject.ragged[{p.signature()}]', f'length not a multiple of M*sps: {p.kind} {p.value}')
    f.__name__ = f'sdd_{M}'
    return f


for _M in (2, 4, 8, 16, 64):
    globals()[f'sdd_{_M}'] = _mk_sdd(_M)


@clause('C12.bounded', min_obl=1)
def bounded(K):
    thorough = K.tier == 'thorough'
    L = 12 if thorough else 10

    def work():
        import numpy as np, itertools
        from opticomlib import ppm
        from opticomlib.typing import binary_sequence, gv
        from opticomlib.devices import DAC
        bad, n, seen = [], 0, set()
        for M in (2, 4, 8, 16):
            k = M.bit_length() - 1
            for ln in range(k, L + 1):
                for v in range(2 ** ln):
                    s = format(v, f'0{ln}b')
                    bits = [int(c) for c in s]
                    ref = ref_encode(bits, M)
                    seen.add((M, s))
                    forms = [s, bits, tuple(bits), np.array(bits), binary_sequence(bits)] if (v % 7 == 0 or ln <= 6) else [bits]
                    for fm in forms:
                        n += 1
                        enc = ppm.PPM_ENCODER(fm, M)
                        if list(map(int, enc.data)) != ref:
                            bad.append({'fn': 'PPM_ENCODER', 'M': M, 'bits': s, 'form': type(fm).__name__})
                            continue
                        if ref:
                            dec = ppm.PPM_DECODER(enc if not isinstance(fm, str) else ''.join(map(str, ref)), M)
                            if list(map(int, dec.data)) != bits[:ln // k * k]:
                                bad.append({'fn': 'PPM_DECODER', 'M': M, 'bits': s})
        for M in (2, 4, 8):
            for slots in range(M, 17, M):
                for v in range(2 ** slots):
                    pat = [int(c) for c in format(v, f'0{slots}b')]
                    seen.add(('hdd', M, v, slots))
                    for seed in ((0,) if not thorough else (0, 1, 2)):
                        n += 1
                        np.random.seed(seed)
                        out = list(map(int, ppm.HDD(pat, M).data))
                        for s_ in range(slots // M):
                            bi, bo = pat[s_ * M:(s_ + 1) * M], out[s_ * M:(s_ + 1) * M]
                            if sum(bo) != 1 or (sum(bi) == 1 and bo != bi) or (sum(bi) > 1 and any(o > i for o, i in zip(bo, bi))):
                                bad.append({'fn': 'HDD', 'M': M, 'pattern': pat, 'out': out})
                                break
        # every order up to 256: empty, saturated (all M slots ON), nearly saturated and random symbols in one record
        rng = np.random.default_rng(2)
        for M in ORDERS:
            syms = [np.zeros(M, int), np.ones(M, int), np.r_[np.ones(M - 1, int), 0], np.r_[0, np.ones(M - 1, int)], (rng.random(M) < 0.5).astype(int), np.eye(M, dtype=int)[M // 3]]
            pat = [int(x) for x in np.concatenate(syms)]
            for seed in (0, 1):
                n += 1
                seen.add(('hdd-saturated', M, seed))
                np.random.seed(seed)
                out = list(map(int, ppm.HDD(pat, M).data))
                for s_ in range(len(syms)):
                    bi, bo = pat[s_ * M:(s_ + 1) * M], out[s_ * M:(s_ + 1) * M]
                    if sum(bo) != 1 or (sum(bi) == 1 and bo != bi) or (sum(bi) > 1 and any(o > i for o, i in zip(bo, bi))):
                        bad.append({'fn': 'HDD', 'M': M, 'symbol': ['empty', 'all ON', 'all ON but the last', 'all ON but the first', 'random', 'codeword'][s_], 'ON slots in': int(sum(bi)), 'ON slots out': int(sum(bo))})
                        break
        rng = np.random.default_rng(1)
        for M in ORDERS:
            k = M.bit_length() - 1
            for rep_ in range(3):
                bits = [int(x) for x in rng.integers(0, 2, k * 40 + rep_)]
                n += 1
                seen.add(('long', M, rep_))
                enc = list(map(int, ppm.PPM_ENCODER(bits, M).data))
                if enc != ref_encode(bits, M) or list(map(int, ppm.PPM_DECODER(enc, M).data)) != bits[:len(bits) // k * k]:
                    bad.append({'fn': 'PPM_ENCODER/DECODER long random sequence', 'M': M, 'len': len(bits)})
        gv(sps=8, R=1e9)
        rng = np.random.default_rng(0)
        for M in (2, 4, 16):
            bits = rng.integers(0, 2, 240)
            enc = ppm.PPM_ENCODER(bits, M)
            for shape in ('nrz', 'gaussian'):
                n += 1
                x = DAC(enc, pulse_shape=shape)
                if list(map(int, ppm.SDD(x, M).data)) != list(map(int, enc.data)):
                    bad.append({'fn': 'SDD identity on noiseless waveform', 'M': M, 'shape': shape})
        # textual containers with separators (the forms the library documents: '01 11 10', '0,1,1,1'): same result as the list of bits
        rng = np.random.default_rng(3)
        for M in (2, 4, 8, 16):
            k = M.bit_length() - 1
            for rep_ in range(4):
                bits = [int(x) for x in rng.integers(0, 2, k * (3 + rep_))]
                ref = ref_encode(bits, M)
                for sep_name, text in (('space', ' '.join(map(str, bits))), ('comma', ','.join(map(str, bits))), ('grouped', ' '.join(''.join(map(str, bits[q:q + k])) for q in range(0, len(bits), k)))):
                    n += 1
                    seen.add(('text', M, rep_, sep_name))
                    try:
                        enc = list(map(int, ppm.PPM_ENCODER(text, M).data))
                        enc_text = ' '.join(map(str, ref)) if sep_name != 'comma' else ','.join(map(str, ref))
                        dec = list(map(int, ppm.PPM_DECODER(enc_text, M).data))
                        hdd = list(map(int, ppm.HDD(enc_text, M).data))
                        if enc != ref or dec != bits or hdd != ref:
                            bad.append({'fn': 'text container with separators', 'M': M, 'separator': sep_name, 'text': text[:40]})
                    except Exception as e:
                        bad.append({'fn': 'text container with separators', 'M': M, 'separator': sep_name, 'raised': f'{type(e).__name__}: {e}'[:100]})
        # lengths that are not whole symbols must be rejected (shorter or longer by less than a slot, by a slot, by more)
        gv(sps=8, R=1e9)
        for M in (2, 4):
            full = 3 * M * 8
            for delta in (-9, -8, -7, -3, -1, 1, 3, 7, 8, 9):
                n += 1
                seen.add(('ragged', M, delta))
                x = rng.normal(size=full + delta)
                try:
                    ppm.SDD(x, M)
                    bad.append({'fn': 'SDD accepts a record that is not a whole number of symbols', 'M': M, 'sps': 8, 'len': full + delta})
                except ValueError:
                    pass
                except Exception as e:
                    bad.append({'fn': 'SDD wrong exception for a ragged record', 'M': M, 'len': full + delta, 'raised': type(e).__name__})
            for delta in (-1, 1, M - 1):
                n += 1
                try:
                    ppm.HDD([0, 1] * ((3 * M + delta + 1) // 2) if (3 * M + delta) % 2 == 0 else ([0, 1] * (3 * M + delta))[:3 * M + delta], M)
                    bad.append({'fn': 'HDD accepts a sequence that is not a whole number of symbols', 'M': M, 'len': 3 * M + delta})
                except ValueError:
                    pass
                except Exception as e:
                    bad.append({'fn': 'HDD wrong exception for a ragged sequence', 'M': M, 'raised': type(e).__name__})
        gv.clean()
        return {'n': n, 'distinct': len(seen), 'bad': bad[:5], 'nbad': len(bad)}
    st, r = native(work, 3000)
    ok = st == 'ok' and r['nbad'] == 0
    K.bounded('exhaustive_small', ok, {'evaluations': r['n'] if st == 'ok' else 0, 'distinct_nontrivial': r['distinct'] if st == 'ok' else 0,
                                       'bound': f'all bit strings of length <= {L} for M in 2,4,8,16 (5 container forms on a subset); all slot patterns <= 16 slots for M <= 8; SDD on noiseless NRZ/Gaussian waveforms; textual containers with separators; ragged lengths (+-1..9 samples around whole symbols) rejected',
                                       'samples': [{'M': 4, 'bits': '0110', 'encoded': '01000010'}], 'failures': r if st == 'ok' else [st, r]})


def frame_runs(K):
    n = z3.Int('n')
    fe, fh = fn(K, 'ppm.PPM_ENCODER'), fn(K, 'ppm.HDD')
    return [('ppm.PPM_ENCODER', lambda ex: ex.call_fn(fe, [mk_binseq(ex, 'b', n), 4], {}), [n >= 2], None),
            ('ppm.HDD', lambda ex: ex.call_fn(fh, [mk_binseq(ex, 'x', n), 4], {}), [n >= 4, n % 4 == 0], lambda ex: setup_hdd(ex, 4, {}))]
