"""bounded cross-check for C01: random expression trees on the real classes against a plain (signal, noise) array-pair model.
Runs inside a child process."""


def run(seed, ntrees):
    import numpy as np, warnings
    from opticomlib.typing import electrical_signal as E, optical_signal as O
    warnings.simplefilter('ignore')
    rng = np.random.default_rng(seed)
    LENS = [1, 2, 3, 5, 7, 64, 1021]
    bad, n, seen, samples = [], 0, set(), []

    def rand_arr(shape, kind):
        if kind == 'int':
            return rng.integers(-9, 10, shape)
        if kind == 'float':
            return np.round(rng.normal(0, 3, shape), 3)
        return np.round(rng.normal(0, 3, shape) + 1j * rng.normal(0, 3, shape), 3)

    def leaf(cls, npol, N, kind, noise):
        shape = (N,) if npol == 1 else (2, N)
        s = rand_arr(shape, kind)
        nz = rand_arr(shape, kind) if noise else None
        o = cls(s, nz) if cls is E else cls(s, nz, n_pol=npol)
        return o, (np.array(o.signal), None if nz is None else np.array(o.noise))

    def protect(o):
        o.signal.flags.writeable = False
        if o.noise is not None:
            o.noise.flags.writeable = False

    def tot(m):
        return m[0] if m[1] is None else m[0] + m[1]

    def check(o, m, cls, npol, what):
        ok = type(o) is cls and o.signal.shape == m[0].shape and (o.noise is None) == (m[1] is None) and (o.noise is None or o.noise.shape == o.signal.shape)
        if cls is O:
            ok = ok and o.n_pol == npol
        if ok:
            ok = np.allclose(o.signal + (o.noise if o.noise is not None else 0), tot(m), rtol=1e-9, atol=1e-9)
        return ok

    def plain_operand(N, kind, side):
        """(python value for the real call, model value as (signal, None))"""
        c = rng.integers(0, 7 if side == 'right' else 5)
        v = rand_arr((), kind if kind != 'int' else 'int')
        if c == 0:
            x = v.item()
            return x, (np.array([x]), None)
        if c == 1:
            a = rand_arr((N,), kind)
            return a.tolist(), (a, None)
        if c == 2:
            a = rand_arr((N,), kind)
            return tuple(a.tolist()), (a, None)
        if c == 3:
            a = rand_arr((N,), 'float')
            if N == 1:
                a = a + 2.5
            s = ','.join(f'{x:.3f}' for x in a)
            return s, (np.round(a, 3), None)
        if c == 4:
            x = rand_arr((1,), kind)
            return x.tolist(), (x, None)
        if c == 5:
            a = rand_arr((N,), kind)
            return a, (a, None)
        x = np.float64(rng.normal())
        return x, (np.array([x]), None)

    for t in range(ntrees):
        cls = E if rng.random() < 0.5 else O
        npol = 1 if cls is E or rng.random() < 0.5 else 2
        N = int(rng.choice(LENS))
        kind = str(rng.choice(['int', 'float', 'complex']))
        cur, m = leaf(cls, npol, N, kind, rng.random() < 0.5)
        desc = [f'{cls.__name__}/{npol}pol/N={N}/{kind}/noise={m[1] is not None}']
        depth = int(rng.integers(1, 7))
        ok = True
        for d in range(depth):
            c = rng.integers(0, 10)
            Ncur = m[0].shape[-1]
            protect(cur)
            before = (cur.signal.copy(), None if cur.noise is None else cur.noise.copy())
            try:
                if c <= 5:
                    op = str(rng.choice(['+', '-', '*']))
                    side = 'right' if rng.random() < 0.6 else 'left'
                    if rng.random() < 0.5:
                        L2 = Ncur if rng.random() < 0.7 else 1
                        other, mo = leaf(cls, npol if L2 != 1 or rng.random() < 0.5 else 1, L2, kind, rng.random() < 0.5)
                        if other.signal.ndim != cur.signal.ndim and L2 != 1:
                            other, mo = leaf(cls, npol, L2, kind, rng.random() < 0.5)
                        protect(other)
                        oval = other
                    else:
                        oval, mo = plain_operand(Ncur, kind, side)
                        if side == 'left' and isinstance(oval, (np.ndarray, np.generic)):
                            oval = oval.tolist()
                    a, b = (cur, oval) if side == 'right' else (oval, cur)
                    res = a + b if op == '+' else (a - b if op == '-' else a * b)
                    ma, mb = (m, mo) if side == 'right' else (mo, m)
                    desc.append(f'{side}{op}{type(oval).__name__}')
                    has_noise = m[1] is not None or mo[1] is not None
                    if op == '*':
                        okc = type(res) is cls and res.signal.shape == m[0].shape and (res.noise is not None) == has_noise and (res.noise is None or res.noise.shape == res.signal.shape)
                        if not okc:
                            ok = False
                        newm = (np.array(res.signal), None if res.noise is None else np.array(res.noise))
                    else:
                        sgn = 1 if op == '+' else -1
                        sig = ma[0] + sgn * mb[0]
                        if has_noise:
                            na = ma[1] if ma[1] is not None else 0
                            nb = mb[1] if mb[1] is not None else 0
                            noi = np.broadcast_to(na + sgn * nb, np.broadcast(sig, na + sgn * nb).shape) + np.zeros_like(sig)
                        else:
                            noi = None
                        newm = (sig, noi)
                        if not check(res, newm, cls, npol, desc):
                            ok = False
                    operands = [x for x in (cur, oval) if isinstance(x, (E, O))]
                elif c <= 7:
                    choice = rng.integers(0, 4)
                    if choice == 0:
                        k = int(rng.integers(-Ncur, Ncur))
                        sl, key = k, (Ellipsis, slice(k, k + 1 if k != -1 else None))
                    elif choice == 1:
                        a0 = int(rng.integers(0, Ncur))
                        sl = slice(a0, None)
                        key = (Ellipsis, sl)
                    elif choice == 2:
                        stp = int(rng.integers(1, 4))
                        sl = slice(None, None, stp)
                        key = (Ellipsis, sl)
                    else:
                        a0 = int(rng.integers(-Ncur, Ncur))
                        b0 = int(rng.integers(-Ncur, Ncur + 1))
                        sl = slice(a0, b0, int(rng.integers(1, 3)))
                        key = (Ellipsis, sl)
                    newm = (m[0][key], None if m[1] is None else m[1][key])
                    desc.append(f'[{sl}]')
                    if newm[0].shape[-1] == 0:
                        try:
                            cur[sl]
                            ok = False
                        except ValueError:
                            pass
                        continue
                    res = cur[sl]
                    if not check(res, newm, cls, npol, desc):
                        ok = False
                    operands = [cur]
                else:
                    res = cur.copy()
                    newm = m
                    desc.append('copy')
                    if not check(res, newm, cls, npol, desc):
                        ok = False
                    operands = [cur]
                # operands untouched, no aliasing
                if not (np.array_equal(cur.signal, before[0]) and (before[1] is None or np.array_equal(cur.noise, before[1]))):
                    ok = False
                for o2 in operands:
                    for arr in (o2.signal, o2.noise):
                        for ra in (res.signal, res.noise):
                            if arr is not None and ra is not None and np.shares_memory(arr, ra):
                                ok = False
                cur, m = res, newm
            except Exception as e:
                ok = False
                desc.append(f'raised {type(e).__name__}: {e}'[:100])
            n += 1
            if not ok:
                break
        seen.add(tuple(desc))
        if not ok:
            bad.append(desc)
        if len(samples) < 3:
            samples.append(' '.join(desc))
    return {'n': n, 'distinct': len(seen), 'bad': bad[:6], 'nbad': len(bad), 'samples': samples}
