"""C20 - PPG driver emits only in-range commands; memory round-trips; SYNC aligns.

Under contract (lab.py): PPG3204._check_channels, set_patt_len, set_freq, set_skew, set_output_voltage, set_offset,
set_prbs_order (with utils.nearest inlined), set_data (chunk loop through an invariant), SYNC's length check.
Observation point: PPG3204._query is replaced by a recorder of the structured command (f-string parts are kept as terms).
Bounded: set_data/get_data round trip against a simulated instrument, SYNC index recovery.
"""
import z3
from pyvc.vc import clause, mval
from pyvc.values import *
from pyvc.loops import ForIndexSpec
from pyvc import reduce as red
from .common import *

LEVEL = 'proof'
LEVEL_TEXT = ('Proof over all requested values: every setter of the real PPG3204 driver is executed symbolically with symbolic requests (scalars and per-channel lists) and channel selections; every '
              'recorded command is shown to address a channel in 1..4 and to format a term inside the documented limits, with a warning exactly when the request was out of range and no '
              'exception; set_data\'s block loop is discharged through an invariant (block sizes in [1,1024], IEEE-488.2 header digits, consecutive addresses). The memory round trip through a '
              'simulated instrument, get_data\'s read plan and SYNC\'s index are bounded run-time checks.')
LEVEL_NOTE = 'format specs (:.1f, :.5e) are assumed to print the formatted term rounded to a grid containing the limits; np.clip / np.split / np.tile index maps are assumed numpy contracts; string data only bounded'
EXPLANATION = LEVEL_TEXT
BOUNDED_RULE = 'simulated VISA instrument: data lengths across 1024-bit block boundaries, start addresses, channel sets, random set/get sequences; SYNC with PRBS patterns, delays, noise; distinct = distinct (length, start, channels) or (pattern, delay)'

LIM = dict(freq=(Fraction('1.5e9'), Fraction('32e9')), volt=(Fraction('0.3'), Fraction(2)), offs=(Fraction(-2), Fraction(3)), skew=(Fraction('-25e-12'), Fraction('25e-12')),
           plen=(2, 2 ** 21))
PRBS_ORDERS = [7, 9, 11, 15, 23, 31]


def mk_ppg(ex):
    def rec(ex_, args, kw):
        ex_.event('query', args[1])
        return 0
    ex.overrides['lab.PPG3204._query'] = rec
    # the driver object is built by its real constructor without an instrument address (the documented debugging mode), so that
    # whatever state __init__ sets up exists; commands are observed at _query
    return ex.instantiate('PPG3204', [], {})


def queries(p):
    return [e[1] for e in p.events if e[0] == 'query']


def warned(p):
    return any(e[0] == 'warn' for e in p.events)


def parse(cmd):
    """structured command -> (literal skeleton, [terms]); a channel number folded into the literal text is turned back into a term"""
    import re
    parts = []
    for q in ([cmd] if isinstance(cmd, str) else list(cmd.parts)):
        if isinstance(q, str) and parts and isinstance(parts[-1], str):
            parts[-1] += q
        else:
            parts.append(q)
    if parts and isinstance(parts[0], str):
        m = re.match(r'^(:(?:DIG|SKEW|VOLT|OUTP))(\d+)(.*)$', parts[0], re.S)
        if m:
            parts = [m.group(1), (int(m.group(2)), None)] + ([m.group(3)] if m.group(3) else []) + parts[1:]
    lit, terms = '', []
    for part in parts:
        if isinstance(part, str):
            lit += part
        else:
            lit += '{}'
            terms.append(part)
    return lit, terms


CH_CASES = {
    'none': (lambda: None, []),
    'int': (lambda: z3.Int('ch'), []),
    'list2': (lambda: [z3.Int('ch0'), z3.Int('ch1')], []),
    'list5': (lambda: [z3.Int('ch0'), z3.Int('ch1'), z3.Int('ch2'), z3.Int('ch3'), z3.Int('ch4')], []),
}


def in_1_4(t):
    t = tonum(t)
    return z3.And(t >= 1, t <= 4)


def native_cmds(method, args, kwargs):
    import io, contextlib, warnings
    from opticomlib.lab import PPG3204
    ppg = PPG3204()
    buf = io.StringIO()
    with warnings.catch_warnings(record=True) as w:
        warnings.simplefilter('always')
        with contextlib.redirect_stdout(buf):
            try:
                getattr(ppg, method)(*args, **kwargs)
                err = None
            except Exception as e:
                err = type(e).__name__
    return {'commands': [l for l in buf.getvalue().split('\n') if l], 'warned': len(w) > 0, 'raised': err}


@clause('C20.chan', min_obl=8)
def chan(K):
    for nm, (mk, pre) in CH_CASES.items():
        ps = K.paths(lambda ex: ex.call(ex.get_method(mk_ppg(ex), '_check_channels'), [mk()], {}), pre)
        for p in ps:
            sig = f'{nm}][{p.signature()}'
            if p.kind != 'ret':
                K.prove(f'noraise[{sig}]', p.pc, False, words='channel normalisation never raises for integer channel requests')
                continue
            a = p.value
            n = conc(a.shape[0])
            if not isinstance(n, int) or n > 4 or n < 1:
                K.fail(f'count[{sig}]', f'{n} channels returned')
                continue
            K.prove(f'range[{sig}]', p.pc, z3.And(*[in_1_4(a.elem((j,))) for j in range(n)]), words='every returned channel is in 1..4, at most 4 channels')
            req = mk()
            if req is not None:
                reqs = req if isinstance(req, list) else [req]
                unchanged = z3.And(*[in_1_4(r) for r in reqs]) if len(reqs) <= 4 else z3.BoolVal(False)
                K.prove(f'warn_iff_altered[{sig}]', p.pc, unchanged == z3.BoolVal(not warned(p)), words='a warning is issued exactly when the request had to be altered')
                if len(reqs) <= 4:
                    K.prove(f'identity[{sig}]', list(p.pc) + [unchanged], z3.And(*[tonum(a.elem((j,))) == tonum(reqs[j]) for j in range(min(n, len(reqs)))]) if n == len(reqs) else False,
                            words='valid requests are passed through unchanged')


def setter_clause(name, method, mkval, limits, cmd_check, nch_cases=('none', 'int', 'list2'), scalar_only=False):
    @clause(f'C20.range.{name}', min_obl=4)
    def f(K):
        for vkind in (('scalar',) if scalar_only else ('scalar', 'list')):
            for chn in (('none',) if scalar_only else nch_cases):
                mkch, _ = CH_CASES[chn]
                nch = {'none': 4, 'int': 1, 'list2': 2}[chn]

                def run(ex):
                    ppg = mk_ppg(ex)
                    v = mkval('v') if vkind == 'scalar' else [mkval(f'v{j}') for j in range(nch)]
                    args = [v] if scalar_only else [v, mkch()]
                    ex.call(ex.get_method(ppg, method), args, {})
                    return v
                ps = K.paths(run, [])

                def rep(m, vkind=vkind, chn=chn, nch=nch):
                    def val(nm):
                        x = mval(m, mkval(nm)) if m is not None else None
                        return fval(x) if x is not None else 0.0
                    v = val('v') if vkind == 'scalar' else [val(f'v{j}') for j in range(nch)]
                    args = [v] if scalar_only else [v, {'none': None, 'int': 2, 'list2': [1, 3]}[chn]]
                    st, r = native(lambda: native_cmds(method, args, {}))
                    bad = st != 'ok' or r['raised'] is not None
                    if not bad:
                        bad = not cmd_check_native(name, r['commands'], limits)
                    return {'confirmed': bad, 'inputs': {'method': method, 'args': args}, 'observed': r}
                for p in ps:
                    sig = f'{vkind},{chn}][{p.signature()}'
                    if p.kind != 'ret':
                        K.prove(f'noraise[{sig}]', p.pc, False, replay=rep, words=f'{method} never raises for numeric requests: out-of-range values are clamped with a warning')
                        continue
                    qs = queries(p)
                    if not qs:
                        K.fail(f'emits[{sig}]', 'no command emitted')
                        continue
                    for qi, q in enumerate(qs):
                        lit, terms = parse(q)
                        cmd_check(K, p, f'{sig}.cmd{qi}', lit, terms, limits, rep)
                    v = p.value
                    vals = v if isinstance(v, list) else [v]
                    lo, hi = limits
                    inr = z3.And(*[z3.And(toreal(x) >= lo, toreal(x) <= hi) for x in vals]) if limits else None
                    if inr is not None:
                        chreq = mkch()
                        chok = z3.BoolVal(True) if chreq is None else z3.And(*[in_1_4(c) for c in (chreq if isinstance(chreq, list) else [chreq])])
                        K.prove(f'warn_iff_clamped[{sig}]', p.pc, z3.And(inr, chok) == z3.BoolVal(not warned(p)), replay=None,
                                words='a warning is issued exactly when a requested value (or channel) is out of range and had to be clamped')
    f.__name__ = f'range_{name}'
    return f


def cmd_check_native(name, commands, limits):
    import re
    ok = bool(commands)
    for c in commands:
        mch = re.match(r':(?:DIG|SKEW|VOLT|OUTP)(\d)', c)
        if mch and not 1 <= int(mch.group(1)) <= 4:
            ok = False
        num = re.findall(r'[-+]?\d+\.?\d*(?:[eE][-+]?\d+)?', c.split(' ', 1)[1]) if ' ' in c else []
        if limits and num:
            v = float(num[0])
            if not float(limits[0]) - 1e-18 <= v <= float(limits[1]) + 1e-18:
                ok = False
    return ok


def check_value_cmd(prefixes, spec_ok):
    def chk(K, p, sig, lit, terms, limits, rep):
        if not any(lit.startswith(pre) or (pre.count('{}') and _match(lit, pre)) for pre in prefixes):
            K.fail(f'syntax[{sig}]', f'unexpected command skeleton {lit!r}')
            return
        lo, hi = limits
        *chs, (val, spec) = terms
        for (ch, _) in chs:
            K.prove(f'channel[{sig}]', p.pc, in_1_4(ch), replay=rep, words='the command addresses a channel in 1..4')
        K.prove(f'value[{sig}]', p.pc, z3.And(toreal(val) >= lo, toreal(val) <= hi), replay=rep, words=f'the formatted value lies inside the documented limits [{float(lo)}, {float(hi)}]')
        if not spec_ok(spec):
            K.fail(f'format[{sig}]', f'unexpected format spec {spec!r}')
    return chk


def _match(lit, pre):
    return lit.split(' ')[0] == pre.split(' ')[0]


range_freq = setter_clause('freq', 'set_freq', lambda n: z3.Real(n), LIM['freq'], check_value_cmd([':FREQ {}'], lambda s: s == '.5e'), scalar_only=True)
range_len = setter_clause('len', 'set_patt_len', lambda n: z3.Int(n), LIM['plen'], check_value_cmd([':DIG{}:PATT:LENG {}'], lambda s: s is None))
range_skew = setter_clause('skew', 'set_skew', lambda n: z3.Real(n), LIM['skew'], check_value_cmd([':SKEW{} {}'], lambda s: s is None))
range_volt = setter_clause('volt', 'set_output_voltage', lambda n: z3.Real(n), LIM['volt'], check_value_cmd([':VOLT{}:POS {}v'], lambda s: s == '.1f'))


def _offs_check(K, p, sig, lit, terms, limits, rep):
    lo, hi = limits
    (ch, _), (val, spec) = terms
    K.prove(f'channel[{sig}]', p.pc, in_1_4(ch), replay=rep, words='the command addresses a channel in 1..4')
    K.prove(f'value[{sig}]', p.pc, z3.And(toreal(val) >= lo, toreal(val) <= hi), replay=rep, words='offset inside [-2, 3] V')
    if lit == ':VOLT{}:NEG:OFFS {}v':
        K.prove(f'sign[{sig}]', p.pc, toreal(val) < 0, words='NEG offset command only for negative offsets')
    elif lit == ':VOLT{}:POS:OFFS {}v':
        K.prove(f'sign[{sig}]', p.pc, toreal(val) >= 0, words='POS offset command only for non-negative offsets')
    else:
        K.fail(f'syntax[{sig}]', f'unexpected command skeleton {lit!r}')


range_offs = setter_clause('offs', 'set_offset', lambda n: z3.Real(n), LIM['offs'], _offs_check)
# integer-typed requests (python ints, int lists/arrays): numpy keeps them integer until the clamp promotes them
range_skew_int = setter_clause('skew_int', 'set_skew', lambda n: z3.Int(n), LIM['skew'], check_value_cmd([':SKEW{} {}'], lambda s: s is None))
range_volt_int = setter_clause('volt_int', 'set_output_voltage', lambda n: z3.Int(n), LIM['volt'], check_value_cmd([':VOLT{}:POS {}v'], lambda s: s == '.1f'))
range_offs_int = setter_clause('offs_int', 'set_offset', lambda n: z3.Int(n), LIM['offs'], _offs_check)


@clause('C20.range.prbs', min_obl=4)
def range_prbs(K):
    for vkind, chn, nch in (('scalar', 'none', 4), ('scalar', 'int', 1), ('list', 'list2', 2)):
        mkch, _ = CH_CASES[chn]

        def run(ex):
            ppg = mk_ppg(ex)
            v = z3.Int('ord') if vkind == 'scalar' else [z3.Int(f'ord{j}') for j in range(nch)]
            ex.call(ex.get_method(ppg, 'set_prbs_order'), [v, mkch()], {})
            return v
        ps = K.paths(run, [])

        def rep(m):
            o = mval(m, z3.Int('ord')) if (m is not None and vkind == 'scalar') else 8
            st, r = native(lambda: native_cmds('set_prbs_order', [o, None], {}))
            ok = st == 'ok' and r['raised'] is None and all(int(c.split()[-1]) in PRBS_ORDERS for c in r['commands'])
            return {'confirmed': not ok, 'inputs': {'order': o}, 'observed': r}
        for p in ps:
            sig = f'{vkind},{chn}][{p.signature()}'
            if p.kind != 'ret':
                K.prove(f'noraise[{sig}]', p.pc, False, replay=rep, words='set_prbs_order never raises for integer orders')
                continue
            for qi, q in enumerate(queries(p)):
                lit, terms = parse(q)
                if lit != ':DIG{}:PATT:PLEN {}':
                    K.fail(f'syntax[{sig}.cmd{qi}]', f'unexpected command skeleton {lit!r}')
                    continue
                (ch, _), (val, _) = terms
                K.prove(f'channel[{sig}.cmd{qi}]', p.pc, in_1_4(ch), replay=rep, words='channel in 1..4')
                K.prove(f'value[{sig}.cmd{qi}]', p.pc, z3.Or(*[tonum(val) == o for o in PRBS_ORDERS]), replay=rep, words='the order sent is one of the supported orders 7, 9, 11, 15, 23, 31')


# ------------------------------------------------------------------ set_data blocks
@clause('C20.blocks', min_obl=8)
def blocks(K):
    n, start = z3.Ints('n start')
    MAXMEM = 2 ** 21

    def setup(ex):
        def havoc(ex_, env):
            env['addr'] = ex_.newvar('addr', 'int')

        def inv(ex_, env, k):
            if 'addr' not in env:
                raise Unsupported('set_data loop invariant names the local `addr`')
            total = z3.If(n > MAXMEM - start + 1, MAXMEM - start + 1, n)
            return [tonum(env['addr']) == start + z3.If(1024 * k <= total, 1024 * k, total)], []
        ex.loopspecs[('lab.PPG3204.set_data', 1)] = ForIndexSpec('C20.blocks.loop', havoc, inv)

    for chn in ('int', 'none'):
        mkch, _ = CH_CASES[chn]

        def run(ex):
            ppg = mk_ppg(ex)
            data = bits_arr('data', n)
            ex.param_provs[data.prov] = 'data'
            ex.call(ex.get_method(ppg, 'set_data'), [data, start, mkch()], {})
            return data
        pre = [n >= 1, start >= 1, start <= MAXMEM]
        ps = K.paths(run, pre, setup, expect_loops=True)

        def rep(m):
            nv = mval(m, n) if m is not None else 2500
            sv = mval(m, start) if m is not None else 1
            if nv > 20000:
                nv = 2500
            def chk():
                r = native_cmds('set_data', [[(i * 7) % 2 for i in range(nv)], sv, 2], {})
                tot, addr, ok = 0, sv, r['raised'] is None
                for c in r['commands']:
                    head, payload = c.split(',#', 1)
                    p_, n_ = head.split(' ')[1].split(',')
                    k_ = int(payload[0]); cnt = int(payload[1:1 + k_]); bits = payload[1 + k_:]
                    ok = ok and int(p_) == addr and int(n_) == cnt == len(bits) and 1 <= cnt <= 1024 and k_ == len(str(cnt))
                    addr += cnt; tot += cnt
                return ok and tot == min(nv, MAXMEM - sv + 1), r['commands'][:2]
            st, out = native(chk)
            return {'confirmed': st != 'ok' or not out[0], 'inputs': {'len': nv, 'start': sv}, 'observed': out}
        nit = 0
        for p in ps:
            sig = f'{chn}][{p.signature()}'
            if p.kind == 'raise':
                K.prove(f'noraise[{sig}]', p.pc, False, replay=rep, words='set_data never raises for bit arrays')
                continue
            if p.kind == 'end':
                nit += 1
                K.discharge_loop_obls(p, prefix=f'[{chn}]', replay=rep)
                k, evs, env = p.ex.loop_events['C20.blocks.loop']
                qs = [e[1] for e in evs if e[0] == 'query']
                if len(qs) != 1:
                    K.fail(f'one_command_per_block[{sig}]', f'{len(qs)} commands in one iteration')
                    continue
                lit, terms = parse(qs[0])
                if lit != ':DIG{}:PATT:DATA {},{},#{}{}{}':
                    K.fail(f'syntax[{sig}]', f'unexpected block command skeleton {lit!r}')
                    continue
                (ch, _), (addr, _), (cnt, _), (kd, _), (cnt2, _), (payload, _) = terms
                total = z3.If(n > MAXMEM - start + 1, MAXMEM - start + 1, n)
                expect_cnt = z3.If((k + 1) * 1024 <= total, 1024, total - k * 1024)
                K.prove(f'channel[{sig}]', p.pc, in_1_4(ch), replay=rep, words='block command addresses a channel in 1..4')
                K.prove(f'size[{sig}]', p.pc, z3.And(tonum(cnt) >= 1, tonum(cnt) <= 1024, tonum(cnt) == expect_cnt), replay=rep, words='block k carries min(1024, remaining) bits, between 1 and 1024')
                K.prove(f'address[{sig}]', p.pc, tonum(addr) == start + 1024 * k, replay=rep, words='block k is written at start + 1024*k: consecutive addresses')
                K.prove(f'header[{sig}]', p.pc, z3.And(tonum(cnt2) == tonum(cnt), z3.Or(*[z3.And(tonum(kd) == d, tonum(cnt) >= 10 ** (d - 1), tonum(cnt) < 10 ** d) for d in range(1, 5)])), replay=rep,
                        words='IEEE-488.2 header #<k><n>: n is the block size and k its number of decimal digits')
                if isinstance(payload, FStr) and len(payload.parts) == 1 and not isinstance(payload.parts[0], str):
                    payload = payload.parts[0][0]
                if isinstance(payload, tuple) and payload[0] == 'join' and payload[1] == '':
                    arr = payload[2]
                    j = z3.Int('j')
                    K.prove(f'payload[{sig}]', list(p.pc) + [j >= 0, j < tonum(cnt)], z3.And(tonum(arr.shape[0]) == tonum(cnt), tonum(arr.elem((j,))) == z3.If(bool_fun('data')(k * 1024 + j), 1, 0)), replay=rep,
                            words='payload bit j of block k is data bit 1024*k + j')
                else:
                    K.fail(f'payload[{sig}]', 'payload is not the concatenation of the block bits')
                continue
            # normal return: single-block case emits its command on this path
            qs = queries(p)
            bad = frame_violations(p)
            (K.fail if bad else K.ok)(f'frame[{sig}]', '; '.join(bad) if bad else 'the caller\'s data is not modified')
            for qi, q in enumerate(qs):
                lit, terms = parse(q)
                if lit != ':DIG{}:PATT:DATA {},{},#{}{}{}':
                    K.fail(f'syntax[{sig}.cmd{qi}]', f'unexpected command skeleton {lit!r}')
                    continue
                (ch, _), (addr, _), (cnt, _), (kd, _), (cnt2, _), (payload, _) = terms
                total = z3.If(n > MAXMEM - start + 1, MAXMEM - start + 1, n)
                K.prove(f'single.size[{sig}.cmd{qi}]', p.pc, z3.And(tonum(cnt) == total, tonum(cnt) >= 1, tonum(cnt) <= 1024, tonum(addr) == start, in_1_4(ch), tonum(cnt2) == tonum(cnt),
                                                                     z3.Or(*[z3.And(tonum(kd) == d, tonum(cnt) >= 10 ** (d - 1), tonum(cnt) < 10 ** d) for d in range(1, 5)])), replay=rep,
                        words='data of at most 1024 bits is sent as one block at the start address with a correct header')
        if nit == 0:
            K.undecided(f'paths[{chn}]', 'no loop-iteration path explored')
    K.cover('cover.multi', [n > 1024, start >= 1])


@clause('C20.sync.reject', min_obl=1)
def sync_reject(K):
    Nr, n, sps = z3.Ints('Nr n sps')
    f = fn(K, 'lab.SYNC')

    def run(ex):
        rx = real_arr('rx', [Nr])
        return ex.call_fn(f, [rx, mk_binseq(ex, 'tx', n), sps], {})
    ps = K.paths(run, [Nr >= 1, n >= 1, sps >= 1, Nr < n * sps], allow_unsupported=True)
    for p in ps:
        (K.ok if p.kind == 'raise' and p.value == 'BufferError' else K.fail)(f'short[{p.signature()}]', f'received record shorter than the pattern: {p.kind} {p.value}')
    if not ps:
        K.undecided('short', 'no path')


class FakeInst:
    """simulated PPG3204 memory (bounded round-trip check)"""
    def __init__(self):
        self.mem = {c: {} for c in range(1, 5)}
        self.log = []

    def query(self, cmd):
        import re
        self.log.append(cmd)
        m = re.match(r':DIG(\d):PATT:DATA (\d+),(\d+),#(\d)(.*)$', cmd)
        if m:
            ch, addr, n, k, rest = int(m.group(1)), int(m.group(2)), int(m.group(3)), int(m.group(4)), m.group(5)
            cnt, bits = int(rest[:k]), rest[k:]
            if not (1 <= ch <= 4 and cnt == n == len(bits) and 1 <= n <= 1024 and set(bits) <= {'0', '1'}):
                return '\n\n'
            for i, b in enumerate(bits):
                self.mem[ch][addr + i] = b
            return '\n'
        m = re.match(r':DIG(\d):PATT:DATA\? (\d+),(\d+)$', cmd)
        if m:
            ch, addr, n = int(m.group(1)), int(m.group(2)), int(m.group(3))
            if not (1 <= ch <= 4 and 1 <= n <= 1024):
                return '\n\n'
            bits = ''.join(self.mem[ch].get(addr + i, '0') for i in range(n))
            return f'#{len(str(n))}{n}{bits}\n'
        return '\n'

    def clear(self):
        pass

    def close(self):
        pass


@clause('C20.bounded', min_obl=2)
def bounded(K):
    thorough = K.tier == 'thorough'
    seed = K.seed

    def work_rt():
        import numpy as np, warnings
        from opticomlib.lab import PPG3204
        warnings.simplefilter('ignore')
        rng = np.random.default_rng(seed)
        bad, n, seen = [], 0, set()
        lens = [1, 2, 7, 1023, 1024, 1025, 2047, 2048, 2049, 3000, 4096, 5000] + ([10000, 8192, 9999] if thorough else [])
        for ln in lens:
            for start in (1, 5, 1000):
                for chs in (None, 2, [1, 3], [4, 2, 1]):
                    ppg = PPG3204()
                    ppg.inst = FakeInst()
                    data = rng.integers(0, 2, ln)
                    n += 1
                    seen.add((ln, start, str(chs)))
                    try:
                        ppg.set_data(data, start, chs)
                        blocks = [c for c in ppg.inst.log if 'PATT:DATA ' in c]
                        got = ppg.get_data(ln, start, chs)
                        nch = 4 if chs is None else (1 if isinstance(chs, int) else len(chs))
                        ok = got.shape == (nch, ln) and all(np.array_equal(got[i], data) for i in range(nch))
                        reads = [c for c in ppg.inst.log if 'PATT:DATA?' in c]
                        ok = ok and all(1 <= int(c.rsplit(',', 1)[1]) <= 1024 for c in reads)
                        if not ok:
                            bad.append({'len': ln, 'start': start, 'CHs': chs, 'shape': str(got.shape)})
                    except Exception as e:
                        bad.append({'len': ln, 'start': start, 'CHs': chs, 'raised': f'{type(e).__name__}: {e}'[:120]})
        # histories on ONE driver object: overlapping writes, rewrites of the same range, interleaved reads (reference: a plain array per channel)
        for hist in range(12 if not thorough else 60):
            ppg = PPG3204()
            ppg.inst = FakeInst()
            ref = {c: np.zeros(9000, int) for c in range(1, 5)}
            A = (rng.integers(0, 2, 3000), 1 + int(rng.integers(0, 40)), [None, 2, [1, 3], [4, 2, 1]][hist % 4])
            Bs = 400 + int(rng.integers(0, 900))
            B = (rng.integers(0, 2, 100 + int(rng.integers(0, 1500))), A[1] + Bs, A[2])
            ops = [A, B, A] + [(rng.integers(0, 2, int(rng.integers(1, 2600))), 1 + int(rng.integers(0, 3000)), [None, 3, [2, 4]][int(rng.integers(0, 3))]) for _ in range(3)] + [B, A]
            n += 1
            seen.add(('history', hist))
            try:
                for k_, (data, start, chs) in enumerate(ops):
                    ppg.set_data(data, start, chs)
                    for c in ([1, 2, 3, 4] if chs is None else ([chs] if isinstance(chs, int) else chs)):
                        ref[c][start:start + len(data)] = data
                    got = ppg.get_data(6000, 1, None)
                    if not all(np.array_equal(got[c - 1], ref[c][1:6001]) for c in range(1, 5)):
                        bad.append({'history': hist, 'after write': k_, 'writes (len, start, CHs)': [(len(d_), s_, c_) for d_, s_, c_ in ops[:k_ + 1]], 'wrong bits': int(sum(np.sum(got[c - 1] != ref[c][1:6001]) for c in range(1, 5)))})
                        break
            except Exception as e:
                bad.append({'history': hist, 'raised': f'{type(e).__name__}: {e}'[:120]})
        return {'n': n, 'distinct': len(seen), 'bad': bad[:5], 'nbad': len(bad)}

    def work_sync():
        import numpy as np
        from opticomlib.lab import SYNC
        from opticomlib.devices import PRBS
        from opticomlib.typing import gv, electrical_signal
        rng = np.random.default_rng(seed)
        bad, n, seen = [], 0, set()
        for sps in (4, 8):
            gv(sps=sps, R=1e9)
            for order, L in ((7, 127), (9, 300)):
                tx = PRBS(order, L)
                wave = np.kron(tx.data, np.ones(sps))
                l = wave.size
                for d in sorted(set([0, 1, sps - 1, sps, l // 3, l // 2, l - 1] + ([int(x) for x in rng.integers(0, l, 6)] if thorough else []))):
                    for sigma in (0.0, 0.1):
                        rx = np.concatenate((wave, wave, wave))
                        rx = np.roll(rx, d)[: 3 * l] + rng.normal(0, sigma, 3 * l) if sigma else np.roll(rx, d)[: 3 * l].astype(float)
                        n += 1
                        seen.add((sps, order, d, sigma))
                        try:
                            sig, i = SYNC(electrical_signal(rx), tx)
                            if int(i) != d or not np.allclose(sig.signal[:8], rx[d:d + 8]):
                                bad.append({'sps': sps, 'order': order, 'delay': d, 'sigma': sigma, 'index': int(i)})
                        except Exception as e:
                            bad.append({'sps': sps, 'order': order, 'delay': d, 'raised': f'{type(e).__name__}: {e}'[:100]})
        gv.clean()
        return {'n': n, 'distinct': len(seen), 'bad': bad[:5], 'nbad': len(bad)}
    def work_range():
        import numpy as np, warnings, re
        from opticomlib.lab import PPG3204
        warnings.simplefilter('ignore')
        bad, n = [], 0
        lims = {'VOLT:POS': (0.3, 2.0), 'SKEW': (-25e-12, 25e-12), 'OFFS': (-2.0, 3.0), 'PATT:LENG': (1, 2 ** 21), 'FREQ': (1.5e9, 32e9)}
        orders = (7, 9, 11, 15, 23, 31)
        reqs = {'set_output_voltage': [0, -3, 1, 5, 0.1, 0.3, 1.0, 2.0, 7.5, np.int64(0), np.float32(0.05), [0, 5, 1, -3], [0.1, 2.5, 1.0, 0.3], np.array([0, 10, 1, 2]), np.array([0.2, 10.0, 1.0, 2.0])],
                'set_skew': [0, -1, 1, 1e-12, -30e-12, 30e-12, [0, 1, -1, 0], [1e-12, -40e-12, 40e-12, 0.0]],
                'set_offset': [0, -5, 5, 1, -2, 3, 0.5, -2.5, 3.5, [0, -5, 5, 1], [0.5, -2.5, 3.5, 0.0], np.array([-3, 4, 0, 1])],
                'set_patt_len': [0, 1, 100, 2 ** 21, 2 ** 22, -5, [0, 1, 2 ** 22, 50]],
                'set_prbs_order': [7, 8, 10, 31, 40, 1, [7, 9, 11, 15], [8, 10, 12, 20], [7.5, 9.9, 15.2, 31.7], np.array([7.5, 8.5, 12.2, 30.9]), np.array([7, 8, 9, 10])],
                'set_freq': [1e9, 1.5e9, 10e9, 32e9, 40e9, 0, -1e9]}
        for meth, vals in reqs.items():
            for v in vals:
                n += 1
                ppg = PPG3204()
                ppg.inst = FakeInst()
                try:
                    getattr(ppg, meth)(v)
                except (ValueError, TypeError):
                    pass                      # a request in an unsupported format is rejected; whatever was sent before the rejection is still checked
                except Exception as e:
                    bad.append({'setter': meth, 'request': repr(v)[:60], 'raised': f'{type(e).__name__}: {e}'[:100]})
                    continue
                for cmd in ppg.inst.log:
                    m = re.match(r'^:(?:DIG|SKEW|VOLT)(\d)(.*?) ?(-?[0-9.eE+-]+)v?$', cmd) or re.match(r'^:(FREQ)() (-?[0-9.eE+-]+)$', cmd)
                    if not m:
                        bad.append({'setter': meth, 'request': repr(v)[:60], 'command not understood': cmd})
                        continue
                    val = float(m.group(3))
                    if m.group(1) != 'FREQ' and not 1 <= int(m.group(1)) <= 4:
                        bad.append({'setter': meth, 'request': repr(v)[:60], 'channel': m.group(1)})
                    if meth == 'set_prbs_order':
                        okv = val in orders
                    else:
                        key = 'FREQ' if meth == 'set_freq' else ('VOLT:POS' if meth == 'set_output_voltage' else 'SKEW' if meth == 'set_skew' else 'OFFS' if meth == 'set_offset' else 'PATT:LENG')
                        lo, hi = lims[key]
                        okv = lo - 1e-18 <= val <= hi + 1e-18
                    if not okv:
                        bad.append({'setter': meth, 'request': repr(v)[:60], 'command': cmd})
        return {'n': n, 'distinct': n, 'bad': bad[:6], 'nbad': len(bad)}
    st, r = native(work_range, 600)
    K.bounded('range_native', st == 'ok' and r['nbad'] == 0, {'evaluations': r['n'] if st == 'ok' else 0, 'distinct_nontrivial': r['distinct'] if st == 'ok' else 0,
              'bound': 'every setter with python/numpy int and float scalars, lists and arrays, in range, at the limits and beyond: each command sent to the simulated instrument carries a channel in 1..4 and a value inside the documented limits (PRBS order in the supported list)',
              'samples': [{'setter': 'set_output_voltage', 'request': 0}], 'failures': r if st == 'ok' else [st, r]})
    st, r = native(work_rt, 1800)
    K.bounded('roundtrip', st == 'ok' and r['nbad'] == 0, {'evaluations': r['n'] if st == 'ok' else 0, 'distinct_nontrivial': r['distinct'] if st == 'ok' else 0,
              'bound': 'lengths 1..5000 (thorough: 10^4) across 1024-bit boundaries x 3 start addresses x 4 channel selections against a simulated instrument; 12 (thorough 60) histories of 8 writes on one driver object (A, B inside A, A again, random writes, B, A) with a full read-back after each', 'samples': [{'len': 2049, 'start': 5, 'CHs': [1, 3]}],
              'failures': r if st == 'ok' else [st, r]})
    st, r = native(work_sync, 1800)
    K.bounded('sync_index', st == 'ok' and r['nbad'] == 0, {'evaluations': r['n'] if st == 'ok' else 0, 'distinct_nontrivial': r['distinct'] if st == 'ok' else 0,
              'bound': 'PRBS7/PRBS9 patterns, sps 4 and 8, delays 0..l-1 (edge values), noise sigma 0 and 0.1', 'samples': [{'sps': 4, 'order': 7, 'delay': 5}], 'failures': r if st == 'ok' else [st, r]})
