"""bounded native harness for C14: seeded reproducibility, argument buffers untouched (write-protected), gv untouched,
outputs never alias inputs.  Runs inside a child process (see C14.bounded)."""
import copy, signal, warnings


class _Timeout(Exception):
    pass


def _alarm(sig, frm):
    raise _Timeout()


def run(seed, tier, history='plain'):
    import numpy as np
    from opticomlib.typing import gv, binary_sequence, electrical_signal, optical_signal, eye
    from opticomlib import devices as D, ppm, ook, utils
    warnings.simplefilter('ignore')
    gv.clean()
    gv(sps=8, R=10e9, N=32)
    rng = np.random.default_rng(seed)
    nbits = 64

    def protect(o):
        for name in ('signal', 'noise', 'data'):
            a = getattr(o, name, None)
            if isinstance(a, np.ndarray):
                a.flags.writeable = False
        return o

    def arrays_of(o):
        if isinstance(o, np.ndarray):
            return [o]
        out = []
        for name in ('signal', 'noise', 'data'):
            a = getattr(o, name, None)
            if isinstance(a, np.ndarray):
                out.append(a)
        if isinstance(o, (tuple, list)):
            for x in o:
                out += arrays_of(x)
        if isinstance(o, eye):
            for k, v in o.__dict__.items():
                if isinstance(v, np.ndarray):
                    out.append(v)
        return out

    def snapshot(o):
        if isinstance(o, (tuple, list)):
            return [snapshot(x) for x in o]
        if isinstance(o, eye):
            return {k: (v.copy() if isinstance(v, np.ndarray) else v) for k, v in o.__dict__.items() if k != 'execution_time'}
        d = {}
        for name in ('signal', 'noise', 'data'):
            a = getattr(o, name, None)
            if isinstance(a, np.ndarray):
                d[name] = a.copy()
        if d:
            d['_cls'] = type(o).__name__
            if hasattr(o, 'n_pol'):
                d['n_pol'] = o.n_pol
            return d
        if isinstance(o, np.ndarray):
            return o.copy()
        return o

    def same(a, b):
        if isinstance(a, dict) and isinstance(b, dict):
            return a.keys() == b.keys() and all(same(a[k], b[k]) for k in a)
        if isinstance(a, list) and isinstance(b, list):
            return len(a) == len(b) and all(same(x, y) for x, y in zip(a, b))
        if isinstance(a, np.ndarray) or isinstance(b, np.ndarray):
            return isinstance(a, np.ndarray) and isinstance(b, np.ndarray) and a.shape == b.shape and a.dtype == b.dtype and np.array_equal(a, b, equal_nan=True)
        if isinstance(a, float) and isinstance(b, float):
            return a == b or (a != a and b != b)
        return a == b

    def gv_snap():
        return {k: (v.copy() if isinstance(v, np.ndarray) else v) for k, v in gv.__dict__.items()}

    bits = binary_sequence(rng.integers(0, 2, nbits))
    el = D.DAC(bits, Vout=1.0)
    N = el.len()

    def mk_op(n_pol, noise, cplx=True):
        def fld(shape):
            return (rng.normal(0.03, 0.01, shape) + 1j * rng.normal(0, 0.01, shape)) if cplx else np.abs(rng.normal(0.03, 0.01, shape))
        shape = (N,) if n_pol == 1 else (2, N)
        s = fld(shape) * (0.2 + el.signal.real)
        return optical_signal(s, fld(shape) * 0.1 if noise else None, n_pol=n_pol)
    layouts = [(1, False), (1, True), (2, False), (2, True)]
    cases = []

    def add(name, f, *mk_args, layout=''):
        cases.append((name, layout, f, mk_args))
    add('PRBS', lambda: D.PRBS(7, 100, 5))
    add('DAC', lambda b: D.DAC(b, Vout=2.0, bias=0.5), lambda: binary_sequence(bits.data))
    add('DAC.rz', lambda b: D.DAC(b, pulse_shape='rz'), lambda: binary_sequence(bits.data))
    add('DAC.gaussian', lambda b: D.DAC(b, pulse_shape='gaussian', T=6), lambda: binary_sequence(bits.data))
    add('LASER', lambda t: D.LASER(t, 3.0, lw=1e6, rin=-150, df=1e9), lambda: gv.t.copy())
    for (npol, nz) in layouts:
        lay = f'{npol}pol,noise={nz}'
        mk = lambda npol=npol, nz=nz: mk_op(npol, nz)
        mke = lambda: electrical_signal(el.signal.copy())
        add('PM', lambda o, e: D.PM(o, e.signal.real.copy(), Vpi=4.0), mk, mke, layout=lay)
        add('MZM', lambda o, e: D.MZM(o, e, bias=2.0, Vpi=4.0, pol='x'), mk, mke, layout=lay)
        add('BPF', lambda o: D.BPF(o, 20e9), mk, layout=lay)
        add('EDFA', lambda o: D.EDFA(o, 15, 5), mk, layout=lay)
        add('DM', lambda o: D.DM(o, 30.0), mk, layout=lay)
        add('FIBER.linear', lambda o: D.FIBER(o, 10, alpha=0.2, beta_2=-20), mk, layout=lay)
        if npol == 2:
            add('FIBER.nonlinear', lambda o: D.FIBER(o, 5, alpha=0.2, beta_2=-20, gamma=2, phi_max=0.05), mk, layout=lay)
        add('PD', lambda o: D.PD(o, 7e9), mk, layout=lay)
        add('FBG', lambda o: D.FBG(o, fc=gv.f0, vdneff=1e-4, kL=2, print_params=False), mk, layout=lay)
    for nz in (False, True):
        lay = f'noise={nz}'
        mke = lambda nz=nz: electrical_signal(el.signal.real + rng.normal(0, 0.02, N), rng.normal(0, 0.02, N) if nz else None)
        add('LPF', lambda e: D.LPF(e, 7e9), mke, layout=lay)
        add('ADC', lambda e: D.ADC(e, n=4), mke, layout=lay)
        add('SAMPLER', lambda e: D.SAMPLER(e, 4), mke, layout=lay)
        add('GET_EYE', lambda e: D.GET_EYE(e, sps_resamp=32), mke, layout=lay)
        add('ook.DSP', lambda e: ook.DSP(e)[0], mke, layout=lay)
        add('ppm.DSP.soft', lambda e: ppm.DSP(e, 4, 'soft'), mke, layout=lay)
        add('ppm.DSP.hard', lambda e: ppm.DSP(e, 4, 'hard'), mke, layout=lay)
        add('ppm.SDD', lambda e: ppm.SDD(e, 4), mke, layout=lay)
        add('gt', lambda e: e > 0.5, mke, layout=lay)
    mkb = lambda: binary_sequence(bits.data)
    add('PPM_ENCODER', lambda b: ppm.PPM_ENCODER(b, 4), mkb)
    add('PPM_DECODER', lambda b: ppm.PPM_DECODER(ppm.PPM_ENCODER(b, 4), 4), mkb)
    add('HDD', lambda b: ppm.HDD(b, 4), mkb)
    add('ppm.BER_counter', lambda a, b: ppm.BER_analizer('counter', Tx=a, Rx=b), mkb, lambda: binary_sequence(1 - bits.data))
    add('ook.BER_counter', lambda a, b: ook.BER_analizer('counter', Tx=a, Rx=b), mkb, lambda: binary_sequence(1 - bits.data))
    add('shortest_int', lambda a: utils.shortest_int(a, 50), lambda: rng.normal(0, 1, 200))
    add('ook.theory_BER', lambda: ook.theory_BER(1.0, 0.1, 0.12))
    add('ppm.theory_BER', lambda: ppm.theory_BER(1.0, 0.1, 0.12, 4, 'hard'))
    add('utils.theory_BER', lambda: utils.theory_BER(-30.0, 'ook'))
    add('bseq.add', lambda a, b: a + b, mkb, mkb)
    add('bseq.invert', lambda a: ~a, mkb)
    for (npol, nz) in layouts:
        lay = f'{npol}pol,noise={nz}'
        mk = lambda npol=npol, nz=nz: mk_op(npol, nz)
        add('osig.add', lambda a, b: a + b, mk, mk, layout=lay)
        add('osig.mul', lambda a: a * 2.0, mk, layout=lay)
        add('osig.call', lambda a: a('w')('t'), mk, layout=lay)
        add('osig.slice', lambda a: a[3:40:2], mk, layout=lay)
    signal.signal(signal.SIGALRM, _alarm)
    bad, n, names, samples = [], 0, set(), []
    if history in ('after_other_grid', 'fresh'):
        # "deterministic blocks give identical results whatever was called before": digest of every result under grid B,
        # either in a fresh process or after the same calls were made under another grid A (see C14.bounded)
        import hashlib
        digests = {}

        def digest(o):
            h = hashlib.sha256()
            def feed(x):
                if isinstance(x, dict):
                    for k in sorted(x):
                        h.update(str(k).encode()); feed(x[k])
                elif isinstance(x, list):
                    for y in x:
                        feed(y)
                elif isinstance(x, np.ndarray):
                    h.update(str(x.shape).encode()); h.update(str(x.dtype).encode()); h.update(np.ascontiguousarray(x).tobytes())
                else:
                    h.update(repr(x).encode())
            feed(snapshot(o))
            return h.hexdigest()[:16]
        grids = ([dict(sps=16, R=2.5e9, N=32)] if history == 'after_other_grid' else []) + [dict(sps=8, R=10e9, N=32)]
        for gi, g in enumerate(grids):
            gv(**g)
            for (name, lay, f, mk_args) in cases:
                if name in ('LASER',):
                    continue
                rng2 = np.random.default_rng(seed + 7)
                st0 = rng.bit_generator.state
                rng.bit_generator.state = rng2.bit_generator.state if False else st0
                args = [m() for m in mk_args]
                rng.bit_generator.state = st0
                np.random.seed(4321 + seed)
                signal.alarm(60)
                try:
                    out = f(*args)
                    d = digest(out)
                except _Timeout:
                    d = 'timeout'
                except Exception as e:
                    d = 'raised ' + type(e).__name__
                finally:
                    signal.alarm(0)
                if gi == len(grids) - 1:
                    digests[f'{name}|{lay}'] = d
        gv.clean()
        return {'digests': digests}
    for (name, lay, f, mk_args) in cases:
        st0 = rng.bit_generator.state
        results = []
        for rep in range(2):
            rng.bit_generator.state = st0          # identical inputs for both repetitions
            args = [protect(m()) if not isinstance(m(), np.ndarray) else m() for m in mk_args]
            rng.bit_generator.state = st0
            args = []
            for m in mk_args:
                a = m()
                if isinstance(a, np.ndarray):
                    a.flags.writeable = False
                else:
                    protect(a)
                args.append(a)
            before = [snapshot(a) for a in args]
            g0 = gv_snap()
            np.random.seed(1234 + seed)
            signal.alarm(60)
            try:
                out = f(*args)
            except _Timeout:
                bad.append({'function': name, 'layout': lay, 'problem': 'no result within 60 s'})
                break
            except Exception as e:
                bad.append({'function': name, 'layout': lay, 'problem': f'raised {type(e).__name__}: {e}'[:200]})
                break
            finally:
                signal.alarm(0)
            n += 1
            if not same(before, [snapshot(a) for a in args]):
                bad.append({'function': name, 'layout': lay, 'problem': 'argument sample data modified'})
            g1 = gv_snap()
            if not same(g0, g1):
                bad.append({'function': name, 'layout': lay, 'problem': 'gv modified'})
            ins = sum((arrays_of(a) for a in args), [])
            for oa in arrays_of(out):
                if any(np.shares_memory(oa, ia) for ia in ins):
                    bad.append({'function': name, 'layout': lay, 'problem': 'output aliases an input buffer'})
                    break
            results.append(snapshot(out))
            if rep == 0:
                # deterministic blocks must not depend on what was called before: disturb the RNG-independent state
                np.random.seed(99)
                D.PRBS(7, 10)
        if len(results) == 2 and not same(results[0], results[1]):
            bad.append({'function': name, 'layout': lay, 'problem': 'not reproducible under the same numpy seed'})
        names.add((name, lay))
        if len(samples) < 4:
            samples.append({'function': name, 'layout': lay})
    gv.clean()
    return {'n': n, 'distinct': len(names), 'bad': bad[:8], 'nbad': len(bad), 'samples': samples}
