"""C05 - DAC waveforms are slot-exact and SAMPLER inverts them.

Under contract: devices.DAC (NRZ / RZ branches and all argument validation), devices.SAMPLER, through
typing.binary_sequence.__init__, electrical_signal.__init__ and electrical_signal.__getitem__ (inlined real code).
Bounded: the Gaussian pulse clauses (scipy.signal.fftconvolve numerics).
"""
import z3
from pyvc.vc import clause, mval
from pyvc.values import *
from pyvc.interp import SliceV
from pyvc import reduce as red
from .common import *

LEVEL = 'proof'
LEVEL_TEXT = ('Proof for every bit sequence length, every sps >= 1 (odd included), every Vout/bias and every sampling instant: the real DAC (NRZ, RZ) and SAMPLER bodies are executed '
              'symbolically with symbolic n, sps, Vout, bias, k; sample-exact formulas, length, the SAMPLER stride law for signal and noise, the DAC->SAMPLER->threshold inverse and '
              'every TypeError/ValueError of the argument validation are discharged. The Gaussian-shape clauses (peak position/height/width) depend on fftconvolve numerics and are a '
              'bounded run-time check over an explicit grid.')
LEVEL_NOTE = 'np.kron / np.tile / strided slicing index maps are assumed numpy contracts; floats as reals; Gaussian clauses bounded only'
EXPLANATION = 'see LEVEL_TEXT'
BOUNDED_RULE = 'Gaussian DAC: grid over sps, T in [sps/2, 2 sps], m in 1..4, isolated-1 patterns; distinct = distinct (sps, T, m) triples'


def native_dac(bits, sps, Vout, bias, shape, **kw):
    import numpy as np
    from opticomlib.typing import gv
    from opticomlib.devices import DAC
    gv(sps=sps, R=1e9)
    return [float(v) for v in DAC(np.array(bits, dtype=np.uint8), Vout=Vout, bias=bias, pulse_shape=shape, **kw).signal]


def dac_run(K, shape, extra_pre=()):
    n, sps, i = z3.Ints('n sps i')
    Vout, bias = z3.Reals('Vout bias')
    f = fn(K, 'devices.DAC')

    def run(ex):
        mk_gv(ex, sps=sps)
        b = mk_binseq(ex, 'bits', n)
        return b, ex.call_fn(f, [b], {'Vout': Vout, 'bias': bias, 'pulse_shape': shape})
    ps = K.paths(run, [n >= 1, sps >= 1, i >= 0, i < n * sps] + list(extra_pre))
    return ps, (n, sps, i, Vout, bias)


def dac_replay(shape, vars_):
    n, sps, i, Vout, bias = vars_

    def rep(m):
        nv, sv = mval(m, n), mval(m, sps)
        if nv > 64 or sv > 64:
            return {'confirmed': False, 'note': 'model too large'}
        bits = [1 if mval(m, bool_fun('bits')(z3.IntVal(j))) else 0 for j in range(nv)]
        V, B = fval(mval(m, Vout)), fval(mval(m, bias))

        def chk():
            try:
                out = native_dac(bits, sv, V, B, shape)
            except (ValueError, TypeError) as e:
                return {'raised': type(e).__name__}
            exp = [B + V * bits[j // sv] * (1 if (shape == 'nrz' or j % sv < sv // 2) else 0) for j in range(nv * sv)]
            return {'ok': len(out) == len(exp) and all(close(a, b, 1e-12) for a, b in zip(out, exp)), 'out': out[:40], 'expected': exp[:40]}
        st, r = native(chk)
        exp_raise = abs(V) >= 48 or abs(B) >= 48
        bad = st != 'ok' or (('raised' in r) != exp_raise) or ('ok' in r and not r['ok'])
        return {'confirmed': bad, 'inputs': {'bits': bits, 'sps': sv, 'Vout': V, 'bias': B, 'pulse_shape': shape}, 'observed': r}
    return rep


@clause('C05.dac', min_obl=10)
def dac(K):
    for shape in ('nrz', 'rz', 'rect', 'NRZ', 'RZ'):
        ps, (n, sps, i, Vout, bias) = dac_run(K, shape)
        rep = dac_replay('nrz' if shape in ('nrz', 'rect', 'NRZ') else 'rz', (n, sps, i, Vout, bias))
        small = [n <= 3, sps <= 5, Vout >= -60, Vout <= 60, bias >= -60, bias <= 60]
        nret = 0
        for p in ps:
            sig = f'{shape}][{p.signature()}'
            inrange = z3.And(Vout < 48, Vout > -48, bias < 48, bias > -48)
            if p.kind == 'raise':
                K.prove(f'range_reject[{sig}]', p.pc, z3.And(z3.Not(inrange), p.value == 'ValueError'), replay=rep, small=small,
                        words='DAC raises only when |Vout| >= 48 or |bias| >= 48, with ValueError')
                continue
            nret += 1
            b, o = p.value
            s = o.f['signal']
            hy = list(p.pc) + red.instances(p.ex, [], [i])
            bit = tonum(b.f['data'].elem((i / sps,)))
            if shape in ('nrz', 'rect', 'NRZ'):
                exp = bias + Vout * z3.ToReal(bit)
            else:
                exp = bias + Vout * z3.ToReal(bit) * z3.If(i % sps < sps / 2, z3.RealVal(1), z3.RealVal(0))
            K.prove(f'in_range[{sig}]', hy, inrange, replay=rep, small=small, words='normal return only for Vout, bias in (-48, 48)')
            K.prove(f'len[{sig}]', hy, tonum(s.shape[0]) == n * sps if s.ndim == 1 else False, replay=rep, small=small, words='exactly len(bits)*sps samples')
            K.prove(f'value[{sig}]', hy, toreal(s.elem((i,))) == exp, replay=rep, small=small,
                    words='sample i = bias + Vout*bits[i div sps]' + ('' if shape in ('nrz', 'rect', 'NRZ') else ' for i mod sps < sps//2, bias otherwise'))
            if o.f['noise'] is not None:
                K.fail(f'noise[{sig}]', 'DAC output carries a noise component')
            bad = frame_violations(p)
            (K.fail if bad else K.ok)(f'frame[{sig}]', '; '.join(bad) if bad else 'input bits and gv untouched')
        if nret == 0:
            K.undecided(f'paths[{shape}]', 'no normal path')
    K.cover('cover.rz', [z3.Int('sps') >= 3])


@clause('C05.sampler', min_obl=6)
def sampler(K):
    N, sps, k, mi = z3.Ints('N sps k m')
    f = fn(K, 'devices.SAMPLER')
    for noise in (False, True):
        for kind in ('float', 'complex'):
            def run(ex):
                mk_gv(ex, sps=sps)
                x = mk_esig(ex, 'x', N, noise=noise, kind=kind)
                return x, ex.call_fn(f, [x, k], {})
            ps = K.paths(run, [N >= 1, sps >= 1, k >= 0, k < sps, mi >= 0])

            def rep(m):
                Nv, sv, kv = mval(m, N), mval(m, sps), mval(m, k)
                if Nv > 200:
                    return {'confirmed': False}
                def chk():
                    import numpy as np
                    from opticomlib.typing import gv, electrical_signal
                    from opticomlib.devices import SAMPLER
                    gv(sps=sv, R=1e9)
                    xs = np.arange(Nv) * 1.0 + 0.5
                    x = electrical_signal(xs, xs * 2 if noise else None)
                    try:
                        y = SAMPLER(x, kv)
                    except ValueError:
                        return {'raised': 'ValueError', 'expected_empty': len(xs[kv::sv]) == 0}
                    ok = np.array_equal(y.signal, xs[kv::sv]) and (not noise or np.array_equal(y.noise, (xs * 2)[kv::sv]))
                    return {'ok': bool(ok)}
                st, r = native(chk)
                bad = st != 'ok' or ('ok' in r and not r['ok']) or ('raised' in r and not r['expected_empty'])
                return {'confirmed': bad, 'inputs': {'N': Nv, 'sps': sv, 'instant': kv, 'noise': noise}, 'observed': r}
            small = [N <= 12, sps <= 5]
            for p in ps:
                sig = f'noise={noise},{kind}][{p.signature()}'
                if p.kind == 'raise':
                    K.prove(f'empty_reject[{sig}]', p.pc, z3.And(k >= N, p.value == 'ValueError'), replay=rep, small=small,
                            words='SAMPLER raises only when no sample is selected (instant beyond the record)')
                    continue
                x, y = p.value
                cnt = (N - k + sps - 1) / sps
                hy = list(p.pc) + [mi < cnt]
                ys, xs = y.f['signal'], x.f['signal']
                K.prove(f'len[{sig}]', list(p.pc), tonum(ys.shape[0]) == cnt, replay=rep, small=small, words='ceil((N-k)/sps) samples')
                K.prove(f'signal[{sig}]', hy, eq_scalar(ys.elem((mi,)), xs.elem((k + mi * sps,))), replay=rep, small=small, words='y.signal[m] = x.signal[k + m*sps]')
                if noise:
                    if y.f['noise'] is None:
                        K.fail(f'noise[{sig}]', 'noise component dropped by SAMPLER')
                    else:
                        K.prove(f'noise[{sig}]', hy, z3.And(tonum(y.f['noise'].shape[0]) == cnt, eq_scalar(y.f['noise'].elem((mi,)), x.f['noise'].elem((k + mi * sps,)))),
                                replay=rep, small=small, words='y.noise[m] = x.noise[k + m*sps]')
                elif y.f['noise'] is not None:
                    K.fail(f'noise[{sig}]', 'noise appeared from nowhere')
                bad = frame_violations(p)
                if not bad and (ys.view or ys.prov in p.ex.param_provs):
                    bad = ['output shares the input buffer']
                (K.fail if bad else K.ok)(f'fresh[{sig}]', '; '.join(bad) if bad else 'input untouched, output freshly allocated')


@clause('C05.inverse', min_obl=4)
def inverse(K):
    """DAC -> SAMPLER -> threshold at bias + Vout/2 returns the bits (composition executed symbolically)"""
    n, sps, k, mi = z3.Ints('n sps k m')
    Vout, bias = z3.Reals('Vout bias')
    fd, fs_ = fn(K, 'devices.DAC'), fn(K, 'devices.SAMPLER')
    for shape in ('nrz', 'rz'):
        def run(ex):
            mk_gv(ex, sps=sps)
            b = mk_binseq(ex, 'bits', n)
            x = ex.call_fn(fd, [b], {'Vout': Vout, 'bias': bias, 'pulse_shape': shape})
            return b, ex.call_fn(fs_, [x, k], {})
        inside = k < sps if shape == 'nrz' else k < sps / 2
        ps = K.paths(run, [n >= 1, sps >= 1, k >= 0, inside, mi >= 0, mi < n, Vout != 0, Vout < 48, Vout > -48, bias < 48, bias > -48])
        for p in ps:
            sig = f'{shape}][{p.signature()}'
            if p.kind != 'ret':
                K.prove(f'noraise[{sig}]', p.pc, False, words='sampling inside the pulse never raises')
                continue
            b, y = p.value
            ys = y.f['signal']
            bit = tonum(b.f['data'].elem((mi,)))
            yv = toreal(ys.elem((mi,)))
            thr = bias + Vout / 2
            K.prove(f'len[{sig}]', p.pc, tonum(ys.shape[0]) == n, words='one sample per slot')
            K.prove(f'decide[{sig}]', p.pc, z3.If(Vout > 0, yv > thr, yv < thr) == (bit == 1),
                    words='comparing the sample with bias+Vout/2 returns the transmitted bit (mirrored comparison for Vout < 0)')
        K.cover(f'cover.{shape}', [sps >= 2, k >= 0, inside])


@clause('C05.validate', min_obl=12)
def validate(K):
    n, sps = z3.Ints('n sps')
    f = fn(K, 'devices.DAC')
    cases = [
        ('Vout complex', dict(Vout=Cx(Fraction(1), Fraction(1))), 'TypeError'),
        ('Vout str', dict(Vout='1'), 'TypeError'),
        ('bias str', dict(bias='0'), 'TypeError'),
        ('bias complex', dict(bias=Cx(Fraction(0), Fraction(1))), 'TypeError'),
        ('Vout 48', dict(Vout=48), 'ValueError'),
        ('Vout -100', dict(Vout=Fraction(-100)), 'ValueError'),
        ('bias 48.0', dict(bias=Fraction(48)), 'ValueError'),
        ('shape unknown', dict(pulse_shape='sinc'), 'ValueError'),
        ('gauss c str', dict(pulse_shape='gaussian', c='a'), 'TypeError'),
        ('gauss m float', dict(pulse_shape='gaussian', m=Fraction(3, 2)), 'TypeError'),
        ('gauss m 0', dict(pulse_shape='gaussian', m=0), 'ValueError'),
        ('gauss m -1', dict(pulse_shape='gaussian', m=-1), 'ValueError'),
        ('gauss T float', dict(pulse_shape='gaussian', T=Fraction(17, 2)), 'TypeError'),
        ('gauss T 0', dict(pulse_shape='gaussian', T=0), 'ValueError'),
        ('gauss T neg', dict(pulse_shape='gaussian', T=-4), 'ValueError'),
    ]
    for nm, kw, exp in cases:
        def run(ex):
            mk_gv(ex, sps=sps)
            return ex.call_fn(f, [mk_binseq(ex, 'bits', n)], dict(kw))
        ps = K.paths(run, [n >= 1, sps >= 2], allow_unsupported=True)
        for p in ps:
            good = p.kind == 'raise' and p.value == exp
            (K.ok if good else K.fail)(f'{nm}[{p.signature()}]', f'expected {exp}, got {p.kind} {p.value}')
    # symbolic Gaussian T: rejected iff T > 2*sps or T <= 0
    T = z3.Int('T')

    def run(ex):
        mk_gv(ex, sps=sps)
        return ex.call_fn(f, [mk_binseq(ex, 'bits', n)], {'pulse_shape': 'gaussian', 'T': T})
    ps = K.paths(run, [n >= 1, sps >= 2], allow_unsupported=True)
    seen = set()
    for p in ps:
        if p.kind == 'raise':
            seen.add('raise')
            K.prove(f'gauss_T_range[{p.signature()}]', p.pc, z3.And(z3.Or(T > 2 * sps, T <= 0), p.value == 'ValueError'), words='Gaussian T is rejected only outside (0, 2*sps], with ValueError')
        elif p.kind == 'unsupported':
            seen.add('pass')
            K.prove(f'gauss_T_accept[{p.signature()}]', p.pc, z3.And(T <= 2 * sps, T > 0), words='validation passes only for T in (0, 2*sps] (waveform synthesis beyond this point is the bounded clause)')
        else:
            K.fail(f'gauss_T[{p.signature()}]', f'unexpected outcome {p.kind}')
    if seen != {'raise', 'pass'}:
        K.undecided('gauss_T.paths', f'expected rejecting and accepting paths, got {seen}')


@clause('C05.bounded', min_obl=1)
def bounded(K):
    thorough = K.tier == 'thorough'

    def work():
        import numpy as np
        from opticomlib.typing import gv
        from opticomlib.devices import DAC, SAMPLER
        bad, n, combos = [], 0, set()
        spss = [8, 9, 16, 31, 32, 64, 128] if thorough else [8, 9, 16, 33]
        for sps in spss:
            gv(sps=sps, R=1e9)
            Ts = sorted(set([(sps + 1) // 2, sps, 2 * sps, (3 * sps) // 4, (3 * sps) // 2] + (list(range((sps + 1) // 2, 2 * sps + 1, max(1, sps // 8))) if thorough else [])))
            for T in Ts:
                for m in (1, 2, 3, 4):
                    for (Vout, bias) in ((1.0, 0.0), (2.5, -1.0)):
                        bits = [0, 0, 0, 1, 0, 0, 0, 0]
                        x = DAC(bits, Vout=Vout, bias=bias, pulse_shape='gaussian', T=T, m=m)
                        y = x.signal.real - bias
                        n += 1
                        combos.add((sps, T, m))
                        pk = int(np.argmax(y))
                        centre = 3 * sps + sps // 2
                        fail = []
                        if len(y) != len(bits) * sps:
                            fail.append('len')
                        if abs(pk - centre) > 1 and not (abs(y[pk] - y[centre]) < 1e-9 * Vout):
                            fail.append(f'peak at {pk}, centre {centre}')
                        if abs(y[pk] - Vout) > 0.05 * Vout:
                            fail.append(f'peak {y[pk]:.4f}')
                        above = np.where(y >= y[pk] / 2)[0]
                        w = above[-1] - above[0] + 1
                        if abs(w - T) > 1:
                            fail.append(f'fwhm {w} vs T={T}')
                        s = SAMPLER(x, sps // 2).signal.real
                        dec = [int(v > bias + Vout / 2) for v in s]
                        if dec != bits:
                            fail.append('decision')
                        if fail:
                            bad.append({'sps': sps, 'T': T, 'm': m, 'Vout': Vout, 'bias': bias, 'fail': fail})
        return {'n': n, 'distinct': len(combos), 'bad': bad[:6], 'nbad': len(bad)}
    st, r = native(work, 1800)
    ok = st == 'ok' and r['nbad'] == 0
    K.bounded('gauss', ok, {'evaluations': r['n'] if st == 'ok' else 0, 'distinct_nontrivial': r['distinct'] if st == 'ok' else 0,
                            'bound': 'sps in {8,9,16,33} (thorough: up to 128), T in [sps/2, 2 sps], m in 1..4, two (Vout,bias) pairs, isolated 1',
                            'samples': [{'sps': 8, 'T': 8, 'm': 1}], 'failures': r if st == 'ok' else st})


def frame_runs(K):
    n, sps, k, N = z3.Ints('n sps k N')
    Vout, bias = z3.Reals('Vout bias')
    fd, fs_ = fn(K, 'devices.DAC'), fn(K, 'devices.SAMPLER')
    out = []
    for shape in ('nrz', 'rz'):
        def run(ex, shape=shape):
            mk_gv(ex, sps=sps)
            return ex.call_fn(fd, [mk_binseq(ex, 'bits', n)], {'Vout': Vout, 'bias': bias, 'pulse_shape': shape})
        out.append((f'devices.DAC[{shape}]', run, [n >= 1, sps >= 1], None))
    for noise in (False, True):
        def run(ex, noise=noise):
            mk_gv(ex, sps=sps)
            return ex.call_fn(fs_, [mk_esig(ex, 'x', N, noise=noise), k], {})
        out.append((f'devices.SAMPLER[noise={noise}]', run, [N >= 1, sps >= 1, k >= 0, k < sps], None))
    return out
