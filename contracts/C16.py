"""C16 - FBG is a passive reflector matching coupled-mode closed forms.

Under contract (devices.py): FBG with its nested ode_system and apodisation closures, optical_signal.__init__/w/len inlined.
scipy.integrate.solve_ivp is numerically opaque (a deterministic function of its arguments: congruence only), so the statements
about the *values* of H (|H| <= 1 within tolerance, Bragg peak, uniform spectrum) are decided in two parts:
  proved   - the right-hand side the real code hands to the integrator is the coupled-mode system R' = j(s^ R + k p S),
             S' = -j(s^ S + k p R) with the documented coefficients, it conserves |R|^2 - |S|^2 for every state, z and apodisation
             (so the exact flow from R=1, S=0 has |S/R| < 1), the initial condition and integration span are the documented ones,
             H is S/R at the end point, the group-delay correction has unit modulus, the output is ifft(fft(in[p]) * ifftshift(H))
             for the returned H in every polarisation, energy(out[p]) <= energy(in[p]) whenever |H| <= 1, equivalent design routes
             hand identical arguments to the integrator, incomplete specifications raise ValueError;
  bounded  - what RK45 makes of it: |H| <= 1 + tol, the Bragg-peak and uniform-spectrum closed forms, numerically on a stated grid.
utils.si / tau_g / dispersion (formatting and group-delay read-outs that do not influence |H| or the filter structure) are replaced
by unconstrained results of the right shape; find_peaks / peak_widths likewise.
"""
import z3
from pyvc.vc import clause, mval
from pyvc.values import *
from pyvc import opaque, extern
from pyvc import reduce as red
from .common import *
from .common import _vars_of
from .C01 import wf, And_
from .C07 import apply_filter, row, idx_of, pol_hyp

LEVEL = 'other'
LEVEL_TEXT = ('Structure proved, ODE numerics bounded: for every input, grid and design the system the real FBG hands to solve_ivp is the documented coupled-mode system (coefficients delta, sigma, kappa, chirp and '
              'apodisation term checked symbolically), its right-hand side conserves |R|^2-|S|^2 for every state (hence |S/R| < 1 for the exact flow from R=1, S=0), H = S/R at z=-1/2, the delay correction '
              'has unit modulus, the output is ifft(fft(in[p])*ifftshift(H)) in every polarisation with energy <= input energy whenever |H| <= 1, the six (fc|landa_D) x (kL|L|N) routes of one vdneff design '
              'give the integrator identical arguments, and every incomplete specification raises ValueError (all 128 presence patterns). That RK45 keeps |H| <= 1 within tolerance and reproduces '
              'tanh^2(kL*int p) and the uniform-grating spectrum is a bounded numerical check.')
LEVEL_NOTE = 'solve_ivp opaque (congruence only); the step from "right-hand side conserves |R|^2-|S|^2" to "|H|<1 for the exact solution" is the textbook integration of a zero derivative (not mechanised); si/tau_g/dispersion/find_peaks/peak_widths unconstrained; floats as reals'
EXPLANATION = LEVEL_TEXT
TECHNIQUE = 'VCs from the real AST of FBG (incl. the nested ode_system handed to the integrator) discharged by z3; solve_ivp uninterpreted; RK45 numerics by bounded run-time contract checks'
BOUNDED_RULE = ('real FBG on random fields: kL in {0.1,1,3,8}, vdneff in {1e-5,1e-4,1e-3}, F in {0,+-5,+-20}, four built-in apodisations + smooth positive callables, N in {2^8..2^10} (thorough 2^12), 1/2 polarisations, '
                'fs in {20,100,400} GS/s: |H| <= 1+1e-3, peak vs tanh^2(kL * integral of the profile in use) (rel 1e-2), uniform spectrum (abs 1.5e-2), route equality (1e-7), output vs filter (1e-12), energy <= input*(1+2e-3); distinct = distinct (design, apodisation, grid)')

CLIGHT = z3.RealVal(299792458)


# --------------------------------------------------------------------------------------------- stand-ins
class ReachedIVP(Exception):
    pass


def _opaque_tail(ex, stop=False):
    def si_(ex, a, k):
        return 'si(...)'

    def tau_(ex, a, k):
        H = a[0]
        f = z3.Function(f'tau_g!{next(ex.fresh)}', z3.IntSort(), z3.RealSort())
        return Arr([s_sub(H.shape[0], 1)], lambda ix: f(tonum(ix[0])), 'float')

    def disp_(ex, a, k):
        H = a[0]
        f = z3.Function(f'disp!{next(ex.fresh)}', z3.IntSort(), z3.RealSort())
        return Arr([s_sub(H.shape[0], 2)], lambda ix: f(tonum(ix[0])), 'float')
    ex.overrides['utils.si'] = si_
    ex.overrides['utils.tau_g'] = tau_
    ex.overrides['utils.dispersion'] = disp_
    if stop:
        def ivp_(ex, a, k):
            ex.event('solve_ivp', dict(k, fun=a[0]))
            raise SymRaise('ReachedIVP', 'integrator reached')
        ex.overrides['ext:scipy.integrate.solve_ivp'] = ivp_


def _last_ivp(ex):
    for e in reversed(ex.events):
        if e[0] == 'solve_ivp':
            return e[1]
    return None


def call_to_ivp(ex, fe, x, kw):
    """run FBG up to its solve_ivp call; returns the recorded call (None if FBG ended otherwise -> exception propagates)"""
    n0 = len(ex.events)
    try:
        ex.call_fn(fe, [x], dict(kw, print_params=False))
    except SymRaise as e:
        if e.cls != 'ReachedIVP':
            raise
        return _last_ivp(ex)
    return None


def apo_user(ex):
    """an arbitrary user apodisation: uninterpreted real function of z"""
    f = z3.Function('apo_user', z3.RealSort(), z3.RealSort())

    def g(ex_, z, *a, **k):
        if isinstance(z, Arr):
            return Arr(list(z.shape), lambda ix: f(toreal(z.elem(ix))), 'float')
        return f(toreal(z))
    g._pyvc_native = True
    return g


# --------------------------------------------------------------------------------------------- native oracles
def native_fbg_check():
    import numpy as np, warnings
    warnings.simplefilter('ignore')
    from opticomlib.typing import gv, optical_signal as O
    from opticomlib.devices import FBG
    from scipy.constants import c, pi
    from scipy.integrate import quad
    gv(fs=100e9)
    rng = np.random.default_rng(1)
    bad = []
    N = 256
    for shape in ((N,), (2, N)):
        s = rng.normal(size=shape) + 1j * rng.normal(size=shape)
        x = O(s)
        for apo, I in (('uniform', 1.0), (lambda z: 0.8 - z ** 2, None), (lambda z: 1 + 0.3 * np.cos(3 * z), None)):
            if I is None:
                I = quad(apo, -.5, .5)[0]
            for kL in (0.5, 3.0):
                try:
                    y, H = FBG(x, fc=gv.f0, vdneff=1e-4, kL=kL, apodization=apo, retH=True, print_params=False)
                    ref = np.fft.ifft(np.fft.fft(s, axis=-1) * np.fft.ifftshift(H), axis=-1)
                    ok = y.signal.shape == s.shape and np.allclose(y.signal, ref, rtol=1e-12, atol=1e-12) and np.abs(H).max() <= 1 + 1e-3
                    ok = ok and abs(abs(H[N // 2]) ** 2 - np.tanh(kL * I) ** 2) <= 5e-3 * np.tanh(kL * I) ** 2 + 1e-5
                    ok = ok and (np.sum(np.abs(y.signal) ** 2, axis=-1) <= np.sum(np.abs(s) ** 2, axis=-1) * (1 + 2e-3)).all()
                    lam = c / gv.f0
                    L = kL / (pi * 1e-4 / lam)
                    for kw in (dict(fc=gv.f0, L=L), dict(fc=gv.f0, N=2 * 1.45 * L / lam), dict(landa_D=lam, kL=kL), dict(landa_D=lam, L=L), dict(landa_D=lam, N=2 * 1.45 * L / lam)):
                        _, H2 = FBG(x, vdneff=1e-4, apodization=apo, retH=True, print_params=False, **kw)
                        ok = ok and np.allclose(H2, H, rtol=1e-9, atol=1e-12)
                except Exception as e:
                    ok = False
                if not ok:
                    bad.append([shape, apo if isinstance(apo, str) else 'callable', kL])
    for kw in (dict(), dict(fc=gv.f0), dict(fc=gv.f0, vdneff=1e-4), dict(fc=gv.f0, kL=2.0), dict(landa_D=1.55e-6), dict(landa_D=1.55e-6, dneff=1e-4), dict(landa_D=1.55e-6, kL=2.0), dict(vdneff=1e-4, kL=1.0)):
        try:
            FBG(O(np.ones(64)), print_params=False, **kw)
            bad.append(['no ValueError', sorted(kw)])
        except ValueError:
            pass
        except Exception as e:
            bad.append([type(e).__name__, sorted(kw)])
    gv.clean()
    return not bad, bad


def rep(m):
    st, out = native(native_fbg_check, 300)
    return {'confirmed': st != 'ok' or not out[0], 'inputs': 'random fields N=256, 1/2 polarisations, uniform and two callable apodisations, kL in {0.5,3}, six design routes; eight incomplete specifications',
            'observed': out}


# --------------------------------------------------------------------------------------------- design routes
ROUTES = ['fc+L', 'fc+kL', 'fc+N', 'landa_D+L', 'landa_D+kL', 'landa_D+N']


def route_kw(name, fc, vd, L, neff):
    lam = CLIGHT / fc
    centre, length = name.split('+')
    kw = {'vdneff': vd, 'neff': neff}
    kw['fc' if centre == 'fc' else 'landa_D'] = fc if centre == 'fc' else lam
    kw[length] = {'L': L, 'kL': PI * vd * L / lam, 'N': 2 * neff * L / lam}[length]
    return kw


@clause('C16.routes', min_obl=20)
def routes(K):
    N, i = z3.Ints('N i')
    fc, vd, L, neff, v, F = z3.Reals('fc vdneff L neff v F')
    fe = fn(K, 'devices.FBG')
    pre = [N >= 2, i >= 0, i < N, fc > 0, vd > 0, L > 0, neff >= 1, v > 0]
    for apo in ('uniform', 'gaussian'):
        for other in ROUTES[1:]:
            def run(ex):
                _opaque_tail(ex, stop=True)
                g = mk_gv(ex)
                x = mk_osig(ex, 'x', N, 1, False)
                a = call_to_ivp(ex, fe, x, dict(route_kw('fc+L', fc, vd, L, neff), v=v, F=F, apodization=apo))
                b = call_to_ivp(ex, fe, x, dict(route_kw(other, fc, vd, L, neff), v=v, F=F, apodization=apo))
                return a, b
            for p in K.paths(run, pre):
                sig = f'{other},{apo}][{p.signature()}'
                if p.kind != 'ret' or p.value[0] is None or p.value[1] is None:
                    K.prove(f'reach[{sig}]', p.pc, False, replay=rep, words='a complete specification reaches the integrator')
                    continue
                a, b = p.value
                same_fun = a['fun'].node is b['fun'].node and a['method'] == b['method'] and a['vectorized'] == b['vectorized']
                (K.ok if same_fun else K.fail)(f'same_system[{sig}]', 'same right-hand-side function, method and mode' if same_fun else 'different right-hand-side function / method')
                for nm, k_ in (('delta', 0), ('sigma', 1), ('kappa', 2)):
                    A, B = a['args'][k_], b['args'][k_]
                    if not (isinstance(A, Arr) and isinstance(B, Arr) and A.ndim == B.ndim == 2):
                        K.fail(f'{nm}[{sig}]', 'integrator coefficients are not (N,1) arrays')
                        continue
                    K.prove(f'{nm}.shape[{sig}]', p.pc, z3.And(tonum(A.shape[0]) == tonum(B.shape[0]), tonum(A.shape[1]) == 1, tonum(B.shape[1]) == 1, tonum(A.shape[0]) == N))
                    K.prove_congruent(f'{nm}[{sig}]', list(p.pc), toreal(A.elem((i, 0))), toreal(B.elem((i, 0))), replay=rep,
                                      words='equivalent specifications (fc|landa_D=c/fc) x (L | kL=pi*vdneff*L/landa_D | N=2*neff*L/landa_D) give the integrator the same coefficient arrays')
                K.prove(f'chirp[{sig}]', p.pc, toreal(a['args'][3]) == toreal(b['args'][3]))
                ya, yb = a['y0'], b['y0']
                K.prove(f'y0[{sig}]', list(p.pc) + [z3.Int('q') >= 0, z3.Int('q') < 2 * N],
                        z3.And(tonum(ya.shape[0]) == tonum(yb.shape[0]), eq_scalar(ya.elem((z3.Int('q'),)), yb.elem((z3.Int('q'),)))))
                ta, tb = a['t_span'], b['t_span']
                (K.ok if [fval(t) for t in ta] == [fval(t) for t in tb] else K.fail)(f'span[{sig}]', f'{ta} vs {tb}')
                same_apo = (a['args'][4] is None and b['args'][4] is None) or (a['args'][4] is not None and b['args'][4] is not None and a['args'][4].node is b['args'][4].node)
                (K.ok if same_apo else K.fail)(f'apod[{sig}]', 'same apodisation function')


# --------------------------------------------------------------------------------------------- incomplete specifications
@clause('C16.incomplete', min_obl=100)
def incomplete(K):
    N = z3.Int('N')
    fe = fn(K, 'devices.FBG')
    names = ['fc', 'landa_D', 'dneff', 'vdneff', 'kL', 'L', 'N']
    vals = {n: z3.Real('v_' + n) for n in names}
    pre = [N >= 2] + [v > 0 for v in vals.values()]
    import itertools
    for pat in itertools.product((False, True), repeat=7):
        has = dict(zip(names, pat))
        combo1 = has['fc'] and (has['dneff'] or has['vdneff']) and (has['N'] or has['kL'] or has['L'])
        combo2 = has['landa_D'] and (has['dneff'] or has['vdneff']) and (has['N'] or has['kL'] or has['L'])
        combo3 = has['landa_D'] and has['kL'] and (has['N'] or has['L'])
        complete = combo1 or combo2 or combo3
        # over-specified: fc takes precedence over landa_D; fc without dneff/vdneff is rejected although (landa_D, kL, L) alone would do
        ambiguous = has['fc'] and not combo1 and (combo2 or combo3)
        if ambiguous:
            continue
        kw = {n: vals[n] for n in names if has[n]}
        tag = '+'.join(n for n in names if has[n]) or 'nothing'

        def run(ex):
            _opaque_tail(ex, stop=True)
            mk_gv(ex)
            x = mk_osig(ex, 'x', N, 1, False)
            try:
                ex.call_fn(fe, [x], dict(kw, print_params=False))
            except SymRaise as e:
                return e.cls
            return 'returned'
        for p in K.paths(run, pre):
            sig = f'{tag}][{p.signature()}'
            got = p.value if p.kind == 'ret' else f'{p.kind}:{p.value}'
            if complete:
                K.prove(f'complete[{sig}]', p.pc, got == 'ReachedIVP', replay=rep, words='a complete specification (one of the three documented combinations) is accepted and reaches the integrator')
            else:
                K.prove(f'valueerror[{sig}]', p.pc, got == 'ValueError', replay=rep, words='an incomplete specification raises ValueError')


# --------------------------------------------------------------------------------------------- the system handed to the integrator
def _abs2(v):
    return toreal(s_real(v)) * toreal(s_real(v)) + toreal(s_imag(v)) * toreal(s_imag(v))


def _mk_ode(apo):
    @clause(f'C16.ode[{apo}]', min_obl=10)
    def f(K):
        N, i, M, m = z3.Ints('N i M m')
        fc, vd, L, neff, v, F, zz = z3.Reals('fc vdneff L neff v F z')
        fe = fn(K, 'devices.FBG')
        pre = [N >= 2, i >= 0, i < N, M >= 1, m >= 0, m < M, fc > 0, vd > 0, L > 0, neff >= 1, v > 0]

        def run(ex):
            _opaque_tail(ex, stop=True)
            g = mk_gv(ex)
            x = mk_osig(ex, 'x', N, 1, False)
            a = call_to_ivp(ex, fe, x, dict(fc=fc, vdneff=vd, L=L, neff=neff, v=v, F=F, apodization=apo_user(ex) if apo == 'callable' else apo))
            if a is None:
                return None
            rho = cx_arr('rho', [2 * N, M])
            d = ex.call(a['fun'], [zz, rho] + list(a['args']), {})
            pz = ex.call(a['args'][4], [zz], {}) if a['args'][4] is not None else None
            return g, x, a, rho, d, pz
        for p in K.paths(run, pre):
            sig = p.signature()
            if p.kind != 'ret' or p.value is None:
                K.prove(f'reach[{sig}]', p.pc, False, replay=rep, words='FBG reaches the integrator for a complete specification')
                continue
            g, x, a, rho, d, pz = p.value
            if not (isinstance(d, list) and len(d) == 2 and all(isinstance(q, Arr) and q.ndim == 2 for q in d)):
                K.fail(f'rhs.shape[{sig}]', 'right-hand side is not [dR, dS] with (N, M) arrays')
                continue
            dR, dS = d
            K.prove(f'rhs.shape[{sig}]', p.pc, z3.And(tonum(dR.shape[0]) == N, tonum(dS.shape[0]) == N, tonum(dR.shape[1]) == M, tonum(dS.shape[1]) == M),
                    words='derivative blocks dR, dS have the shape of R and S (their concatenation is the state derivative)')
            R, S = rho.elem((i, m)), rho.elem((N + i, m))
            dr, ds = dR.elem((i, m)), dS.elem((i, m))
            # conservation: d/dz (|R|^2 - |S|^2) = 2 Re(conj(R) R' - conj(S) S') = 0
            flux = (toreal(s_real(R)) * toreal(s_real(dr)) + toreal(s_imag(R)) * toreal(s_imag(dr))) - (toreal(s_real(S)) * toreal(s_real(ds)) + toreal(s_imag(S)) * toreal(s_imag(ds)))
            K.prove(f'conserve[{sig}]', p.pc, flux == 0, replay=rep, algebra=True,
                    words='for every state, z, chirp and apodisation the right-hand side satisfies Re(conj(R) dR) = Re(conj(S) dS): |R|^2 - |S|^2 is conserved, so from R=1, S=0 the exact solution has |S/R| < 1')
            # documented coefficients
            lam_D = CLIGHT / fc
            we = ex_w(p.ex, g, N, i)
            lam = 2 * PI * CLIGHT / (we + 2 * PI * toreal(g.f['f0']))
            delta = 2 * PI * neff * (1 / lam - 1 / lam_D) * L
            kap = PI * vd / lam * L
            pp = toreal(pz) if pz is not None else z3.RealVal(1)
            s_hat = delta - F * zz                     # vdneff design: dneff = 0, so the dc self-coupling term vanishes
            exp_dr = s_mul(Cx(Fraction(0), Fraction(1)), s_add(s_mul(s_hat, R), s_mul(kap * pp, S)))
            exp_ds = s_mul(Cx(Fraction(0), Fraction(-1)), s_add(s_mul(s_hat, S), s_mul(kap * pp, R)))
            hy = list(p.pc) + [lam != 0, we + 2 * PI * toreal(g.f['f0']) != 0]
            for nm, got, exp_ in (('dR', dr, exp_dr), ('dS', ds, exp_ds)):
                for comp, pick in (('re', s_real), ('im', s_imag)):
                    K.prove_congruent(f'{nm}.{comp}[{sig}]', hy, toreal(pick(got)), toreal(pick(exp_)), replay=rep,
                                      words="R' = j((delta - F z) R + kappa p(z) S), S' = -j((delta - F z) S + kappa p(z) R) with delta = 2 pi neff (1/lambda - 1/lambda_D) L, kappa = pi vdneff L / lambda, "
                                            "lambda = 2 pi c/(w + 2 pi f0), lambda_D = c/fc (dimensionless z in [-1/2, 1/2])")
            # apodisation profile: for a built-in name any real function of z alone (the property quantifies over profiles); a user callable is used as given
            if apo == 'uniform':
                (K.ok if pz is None else K.fail)(f'profile[{sig}]', 'uniform: no apodisation function')
            elif apo == 'callable':
                K.prove(f'profile[{sig}]', p.pc, (toreal(pz) == z3.Function('apo_user', z3.RealSort(), z3.RealSort())(zz)) if pz is not None else False, replay=rep, words='a user callable is used as given')
            else:
                free = {str(t) for t in _vars_of([toreal(pz)])} - {'z', 'pi'}
                (K.ok if not free and not isinstance(pz, Cx) else K.fail)(f'profile[{sig}]', 'built-in profile is a real function of z alone' if not free else f'profile depends on {sorted(free)}')
            # initial condition, span, method
            q = z3.Int('q')
            y0 = a['y0']
            K.prove(f'initial[{sig}]', list(p.pc) + [q >= 0, q < 2 * N], z3.And(tonum(y0.shape[0]) == 2 * N, eq_scalar(y0.elem((q,)), Cx(z3.If(q < N, z3.RealVal(1), z3.RealVal(0)), z3.RealVal(0)))),
                    replay=rep, words='initial state R = 1, S = 0 at every frequency')
            ts = [fval(t) for t in a['t_span']]
            (K.ok if ts == [0.5, -0.5] else K.fail)(f'span[{sig}]', f'integration from z=+1/2 to z=-1/2 (found {ts})')
            (K.ok if a['vectorized'] is True and a['method'] == 'RK45' else K.fail)(f'mode[{sig}]', f"vectorized RK45 (found {a['method']}, vectorized={a['vectorized']})")
            K.prove(f'chirp_arg[{sig}]', p.pc, toreal(a['args'][3]) == F)
    f.__name__ = f'ode_{apo}'
    return f


def ex_w(ex, g, N, i):
    """w(shift=True)[i] of the specification: fftshift(2 pi fftfreq(N) fs)"""
    fs = toreal(g.f['fs'])
    # fftshift: element i comes from index (i + N - N//2) mod N  ==  i - N//2 (+N if negative)
    h = tonum(N) / 2
    src = z3.If(i - h < 0, i - h + N, i - h)
    return 2 * PI * UF['fftfreq'](tonum(N), src) * fs


for _a in ('uniform', 'rcos', 'gaussian', 'parabolic', 'callable'):
    globals()[f'ode_{_a}'] = _mk_ode(_a)


# --------------------------------------------------------------------------------------------- H and its application
def _mk_apply(npol, filtfilt):
    @clause(f'C16.apply[{npol}pol,filtfilt={filtfilt}]', min_obl=6)
    def f(K):
        N, i = z3.Ints('N i')
        fc, vd, kL, neff, v, F = z3.Reals('fc vdneff kL neff v F')
        fe = fn(K, 'devices.FBG')
        pre = [N >= 4, i >= 0, i < N, fc > 0, vd > 0, kL > 0, neff >= 1, v > 0]

        def run(ex):
            _opaque_tail(ex)
            g = mk_gv(ex)
            x = mk_osig(ex, 'x', N, npol, True)
            r = ex.call_fn(fe, [x], dict(fc=fc, vdneff=vd, kL=kL, neff=neff, v=v, F=F, print_params=False, filtfilt=filtfilt, retH=True))
            y, H = r
            spec = apply_filter(ex, x.f['signal'], extern.np_ifftshift(ex, H))
            return x, y, H, spec
        for p in K.paths(run, pre):
            sig = p.signature()
            if p.kind != 'ret':
                if p.kind == 'raise' and p.value == 'IndexError':
                    continue        # Bragg frequency in the last two bins of the grid: the dispersion read-out is out of range (outside the property's domain: grating centred in the band)
                K.prove(f'noraise[{sig}]', p.pc, False, replay=rep, words='FBG accepts every optical input with a complete design')
                continue
            x, y, H, spec = p.value
            ivp = _last_ivp(p.ex)
            ok = y.cls == 'optical_signal' and conc(y.f.get('n_pol')) == npol and isinstance(H, Arr) and H.ndim == 1
            K.prove(f'shape[{sig}]', p.pc, z3.And(And_(wf(y, N)), tonum(H.shape[0]) == N) if ok else False, replay=rep, words='output has the shape of the input; H has one value per frequency bin')
            if not ok:
                continue
            idx = idx_of(npol, i)
            hy = list(p.pc) + pol_hyp(npol)
            K.prove(f'filtered[{sig}]', hy, eq_scalar(y.f['signal'].elem(idx), spec.elem(idx)), replay=rep,
                    words='output field = ifft(fft(in[p]) * ifftshift(H)) for the returned H, in every polarisation')
            # H = S/R at the end point of the integration (times a unit-modulus delay factor)
            sols = [e for e in p.ex.events if e[0] == 'solve_ivp_result']
            if sols:
                Y = sols[0][1]
                T = Y.shape[1]
                Rv, Sv = Y.elem((i, s_sub(T, 1))), Y.elem((N + i, s_sub(T, 1)))
                hy2 = hy + [_abs2(Rv) != 0]
                K.prove(f'H_modulus[{sig}]', hy2, _abs2(H.elem((i,))) * _abs2(Rv) == _abs2(Sv), algebra=True, replay=rep,
                        words='|H| = |S(-1/2)| / |R(-1/2)| of the integrator result (the group-delay correction has unit modulus)')
            else:
                K.undecided(f'H_modulus[{sig}]', 'integrator result not recorded')
            # passive: energy(out[p]) <= energy(in[p]) given |H| <= 1
            for r_ in range(npol):
                yin = row(y.f['signal'], npol, r_)
                app = opaque.find_app(p.ex, yin)
                fx = [a for a in p.ex.apps if a.op == 'fft' and opaque.arrays_equal(p.ex, a.inp, row(x.f['signal'], npol, r_))]
                if app is None or not fx:
                    K.undecided(f'energy[{sig},pol{r_}]', 'output is not a registered ifft application of the input spectrum')
                    continue
                Hs = extern.np_ifftshift(p.ex, H)
                W2 = Arr(app.inp.shape, lambda ix, a=app: opaque._abs2(a.inp.elem(ix)), 'float')
                X2 = Arr(fx[0].out.shape, lambda ix, a=fx[0]: opaque._abs2(a.out.elem(ix)), 'float')
                facts = opaque.parseval_facts(p.ex, [app, fx[0]])
                lem = red.le_lemma(p.ex, W2, X2, extra=[lambda j: _abs2(Hs.elem((j,))) <= 1])
                if lem is None:
                    K.prove(f'energy[{sig},pol{r_}]', p.pc, False, replay=rep, words='|H X|^2 <= |X|^2 at every bin when |H| <= 1')
                    continue
                K.prove(f'energy[{sig},pol{r_}]', [N >= 1] + facts + [lem], toreal(opaque.sumsq(p.ex, yin)) <= toreal(opaque.sumsq(p.ex, row(x.f['signal'], npol, r_))), replay=rep,
                        words='energy of each output polarisation <= energy of the input polarisation whenever |H| <= 1 at every bin')
            bad = purity_violations(p, y)
            (K.fail if bad else K.ok)(f'frame[{sig}]', '; '.join(bad) if bad else 'input untouched, fresh output')
    f.__name__ = f'apply_{npol}_{filtfilt}'
    return f


for _n in (1, 2):
    for _ff in (True, False):
        globals()[f'apply_{_n}_{_ff}'] = _mk_apply(_n, _ff)


# --------------------------------------------------------------------------------------------- RK45 numerics (bounded)
@clause('C16.bounded', min_obl=1)
def bounded(K):
    thorough = K.tier == 'thorough'
    seed = K.seed

    def work():
        import numpy as np, warnings
        warnings.simplefilter('ignore')
        from opticomlib.typing import gv, optical_signal as O
        from opticomlib.devices import FBG
        from scipy.constants import c, pi
        from scipy.integrate import quad
        import opticomlib.devices as dev
        rng = np.random.default_rng(seed)
        bad, n, seen = [], 0, set()
        seen_args = []
        real_ivp = dev.solve_ivp

        def spy(fun, *a, **k):            # observation only: records the arguments and calls the real integrator
            seen_args.append(k.get('args'))
            return real_ivp(fun, *a, **k)
        dev.solve_ivp = spy

        def smooth_positive():
            a, b, ph = rng.uniform(0.2, 1.5), rng.uniform(0, 0.9), rng.uniform(0, 6.28)
            k_ = rng.uniform(0.5, 6)
            return lambda z: a * (1 + b * np.cos(k_ * z + ph))
        cases = 60 if not thorough else 600
        for q in range(cases):
            fs = [20e9, 100e9, 400e9][q % 3]
            N = int(2 ** rng.choice([8, 9, 10] if not thorough else [8, 9, 10, 11, 12]))
            npol = 1 + (q % 2)
            kL = float(rng.choice([0.1, 1.0, 3.0, 8.0])) if q % 4 else float(rng.uniform(0.1, 8))
            vd = float(10 ** rng.uniform(-5, -3))
            F = 0.0 if q % 3 != 2 else float(rng.uniform(-20, 20))
            aname = ['uniform', 'rcos', 'gaussian', 'parabolic', 'callable'][q % 5]
            apo = smooth_positive() if aname == 'callable' else aname
            gv(fs=fs)
            shape = (N,) if npol == 1 else (2, N)
            s = rng.normal(size=shape) + 1j * rng.normal(size=shape)
            x = O(s)
            n += 1
            seen.add((aname, round(kL, 3), round(np.log10(vd), 2), round(F, 2), N, fs, npol))
            case = {'apod': aname, 'kL': kL, 'vdneff': vd, 'F': F, 'N': N, 'fs': fs, 'npol': npol}
            try:
                seen_args.clear()
                y, H = FBG(x, fc=gv.f0, vdneff=vd, kL=kL, F=F, apodization=apo, retH=True, print_params=False)
                used = seen_args[-1][4] if seen_args else None
                prof = (lambda z: 1.0 + 0 * z) if used is None else used         # built-in name: the profile the real call handed to the integrator
                if aname == 'callable':
                    prof = apo                                                   # user callable: the profile the user asked for
            except Exception as e:
                bad.append(dict(case, problem=f'{type(e).__name__}: {e}'))
                continue
            prob = []
            if not (np.isfinite(H).all() and np.abs(H).max() <= 1 + 1e-3):
                prob.append(f'max|H| = {np.abs(H).max()}')
            ref = np.fft.ifft(np.fft.fft(s, axis=-1) * np.fft.ifftshift(H), axis=-1)
            if y.signal.shape != s.shape or not np.allclose(y.signal, ref, rtol=1e-12, atol=1e-12):
                prob.append('output is not ifft(fft(in)*ifftshift(H))')
            if not (np.sum(np.abs(y.signal) ** 2, axis=-1) <= np.sum(np.abs(s) ** 2, axis=-1) * (1 + 2e-3)).all():
                prob.append('output energy exceeds input energy')
            if F == 0:
                I = quad(prof, -.5, .5)[0]
                pk, th = abs(H[N // 2]) ** 2, np.tanh(kL * I) ** 2
                if abs(pk - th) > 1e-2 * th + 1e-6:
                    prob.append(f'Bragg reflectivity {pk} vs tanh^2(kL*int p) = {th}')
                if aname == 'uniform':
                    lam = 2 * pi * c / (x.w(shift=True) + 2 * pi * gv.f0)
                    lamD = c / gv.f0
                    L = kL / (pi * vd / lamD)
                    d = 2 * pi * 1.45 * (1 / lam - 1 / lamD) * L
                    k_ = pi * vd / lam * L
                    g = np.sqrt((k_ ** 2 - d ** 2).astype(complex))
                    cf = (np.sinh(g) ** 2 / (np.cosh(g) ** 2 - d ** 2 / k_ ** 2)).real
                    e = np.abs(np.abs(H) ** 2 - cf).max()
                    if not e <= 1.5e-2:
                        prob.append(f'uniform spectrum differs from the closed form by {e}')
            if q % 5 == 0:
                lamD = c / gv.f0
                L = kL / (pi * vd / lamD)
                for kw in (dict(fc=gv.f0, L=L), dict(fc=gv.f0, N=2 * 1.45 * L / lamD), dict(landa_D=lamD, kL=kL), dict(landa_D=lamD, L=L), dict(landa_D=lamD, N=2 * 1.45 * L / lamD)):
                    try:
                        _, H2 = FBG(x, vdneff=vd, F=F, apodization=apo, retH=True, print_params=False, **kw)
                        if not np.allclose(H2, H, rtol=1e-7, atol=1e-10):
                            prob.append(f'route {sorted(kw)} gives a different response (max diff {np.abs(H2 - H).max()})')
                    except Exception as e_:
                        prob.append(f'route {sorted(kw)}: {type(e_).__name__}')
            if prob:
                bad.append(dict(case, problem=prob))
        gv.clean()
        return {'n': n, 'distinct': len(seen), 'bad': bad[:6], 'nbad': len(bad)}
    st, r = native(work, 3000)
    K.bounded('rk45_numerics', st == 'ok' and r['nbad'] == 0,
              {'evaluations': r['n'] if st == 'ok' else 0, 'distinct_nontrivial': r['distinct'] if st == 'ok' else 0,
               'bound': f'{60 if not thorough else 600} random designs: kL in {{0.1,1,3,8}} u [0.1,8], vdneff in [1e-5,1e-3], F in {{0}} u [-20,20], 4 built-in + random smooth positive callables, N in 2^8..2^{12 if thorough else 10}, 1/2 pol, fs in {{20,100,400}} GS/s; tolerances: |H|<=1+1e-3, peak rel 1e-2, uniform spectrum abs 1.5e-2, routes 1e-7, filter 1e-12',
               'samples': [{'apod': 'gaussian', 'kL': 3.0, 'vdneff': 1e-4, 'F': 0, 'N': 512}], 'failures': r if st == 'ok' else [st, r]})


def frame_runs(K):
    N = z3.Int('N')
    fc, vd, kL = z3.Reals('fc vdneff kL')
    fe = fn(K, 'devices.FBG')

    def run(ex):
        _opaque_tail(ex)
        mk_gv(ex)
        return ex.call_fn(fe, [mk_osig(ex, 'x', N, 2, True)], dict(fc=fc, vdneff=vd, kL=kL, print_params=False))
    return [('devices.FBG', run, [N >= 4, fc > 0, vd > 0, kL > 0], None)]
