"""C04 - PRBS emits the maximal-length sequence of its ITU polynomial and can be resumed.

Function under contract: devices.PRBS (whole body, including the while loop, through a loop invariant).
Specification (from the property statement, not from the code):
   documented taps (n, t);  state s in [1, 2^n);  emitted bit = bit0(s);
   next(s) bit j = bit j-1 of s (1 <= j < n), bit 0 = bit(n-1) xor bit(t-1), bits >= n are 0
   S(0) = seed' (seed mod 2^n, replaced by 1 when 0; 2^n-1 when no seed is given),  S(k+1) = next(S(k))
   PRBS(n, L, seed, return_seed=True) = ([bit0(S(k)) for k < L], S(L))
"""
import random
import z3
from pyvc.vc import clause, mval, run_native, load_native
from pyvc.values import *
from pyvc.values import _bv
from pyvc.loops import LoopSpec
from pyvc.interp import Fn

LEVEL = 'proof'
LEVEL_TEXT = ('Proof for all seeds, lengths and splits: the real PRBS body is executed symbolically (BV64 register, symbolic int seed/len) for each of the '
              '7 supported orders; the while loop is discharged through an inductive invariant against the ghost sequence S of the documented ITU '
              'recurrence; period 2^n-1 / balance for all non-zero states (PRBS31 included) follow from a GF(2) certificate computed from the step '
              'function extracted from the code. A bounded native cross-check against an independent reference guards the engine.')
LEVEL_NOTE = ('trusted: z3 (bit-vector + integer VCs), the pyvc executor, the GF(2) matrix routine (cross-checked by polynomial arithmetic), the group-theory '
              'lemma exact_period (Lean-checked in the thorough tier); the register is modelled as a 64-bit vector, exact below 2^62 (proved invariant)')
TECHNIQUE = 'contract-based deductive verification (loop invariant + ghost recurrence, VCs from the real AST, z3) + GF(2) primitive-polynomial certificate'
EXPLANATION = ('PRBS body executed symbolically for every supported order with symbolic seed and length; while-loop handled by an '
               'inductive invariant against the ghost sequence S defined from the documented ITU taps; period/balance by a GF(2) '
               'certificate (T^N = I, T^(N/q) - I non-singular for every prime q | N) computed from the step function extracted from the code')
TRUSTED = ['60-line GF(2) matrix routine in contracts/C04.py (cross-checked against polynomial arithmetic mod x^n+x^t+1)',
           'elementary group fact: if T^N v = v and T^(N/q) v != v for every prime q | N then the orbit of v has exactly N elements '
           '(Lean proof lean/Period.lean, kernel-checked in the thorough tier)']
BOUNDED_RULE = 'native PRBS(order, len, seed) vs an independent GF(2) recurrence on random seeds/lengths/splits; distinct = distinct (order, seed, len, split) tuples'

TAPS = {7: 6, 9: 5, 11: 9, 15: 14, 20: 3, 23: 18, 31: 28}     # documented (n, t) pairs, ITU-T O.150
W = 64


def bit(s, j):
    return z3.Extract(j, j, s)


def spec_next(s, n):
    t = TAPS[n]
    fb = bit(s, n - 1) ^ bit(s, t - 1)
    low = z3.Concat(z3.Extract(n - 2, 0, s), fb)          # n bits: old bits n-2..0 shifted up, feedback at bit 0
    return z3.ZeroExt(W - n, low)


def spec_seed(seed, n):
    """normalised seed as Int term"""
    if seed is None:
        return z3.IntVal(2 ** n - 1)
    r = seed % (2 ** n)
    return z3.If(r == 0, z3.IntVal(1), r)


def reference(n, seed, L):
    """independent concrete reference (plain python ints) used for replay / bounded cross-check"""
    t = TAPS[n]
    s = (2 ** n - 1) if seed is None else seed % (2 ** n)
    if s == 0:
        s = 1
    out = []
    for _ in range(L):
        out.append(s & 1)
        fb = ((s >> (n - 1)) ^ (s >> (t - 1))) & 1
        s = ((s << 1) & (2 ** n - 1)) | fb
    return out, s


def native_prbs(n, L, seed, **kw):
    load_native()
    from opticomlib.devices import PRBS
    import warnings
    with warnings.catch_warnings(record=True) as w:
        warnings.simplefilter('always')
        try:
            r = PRBS(n, L, seed, return_seed=True, **kw)
            return {'bits': [int(b) for b in r[0].data], 'state': int(r[1]), 'warned': len(w) > 0}
        except Exception as e:
            return {'raised': type(e).__name__, 'warned': len(w) > 0}


def make_replay(n, L, seed):
    def replay(m):
        Lc = mval(m, L)
        sc = None if seed is None else mval(m, seed)
        if not isinstance(Lc, int) or Lc > 200000:
            return {'confirmed': False, 'note': f'model length {Lc} too large to replay'}
        st, got = run_native(lambda: native_prbs(n, Lc, sc), 60)
        if st != 'ok':
            return {'confirmed': st == 'timeout', 'inputs': {'order': n, 'len': Lc, 'seed': sc}, 'observed': st}
        if Lc <= 0:
            exp = {'raised': 'ValueError'}
            ok = got.get('raised') == 'ValueError'
        else:
            bits, state = reference(n, sc, Lc)
            exp = {'bits': bits, 'state': state, 'warned': sc is not None and sc % 2 ** n == 0}
            ok = got.get('bits') == bits and got.get('state') == state and got.get('warned') == exp['warned']
        return {'confirmed': not ok, 'inputs': {'order': n, 'len': Lc, 'seed': sc}, 'observed': got, 'expected': exp}
    return replay


def search_replay(n, seeds=None):
    """fallback replay for obligations whose counter-model is an intermediate state (loop invariant, step lemmas):
    native search for a failing input of the function-level contract"""
    def replay(m):
        def work():
            for seed in (seeds or [None, 0, 1, 2, 5, 2 ** n - 1, 2 ** n, 2 ** n + 3, -1, 0x5A5A5A5A5]):
                for L in (1, 2, n + 3, 3 * n + 1):
                    got = native_prbs(n, L, seed)
                    bits, state = reference(n, seed, L)
                    exp = {'bits': bits, 'state': state, 'warned': seed is not None and seed % 2 ** n == 0}
                    if got.get('bits') != bits or got.get('state') != state or got.get('warned') != exp['warned']:
                        return {'confirmed': True, 'inputs': {'order': n, 'len': L, 'seed': seed}, 'observed': got, 'expected': exp}
            return {'confirmed': False, 'note': 'native search over 40 (seed, len) pairs found no failing input'}
        st, r = run_native(work, 120)
        return r if st == 'ok' else {'confirmed': st == 'timeout', 'observed': st}
    return replay


def setup_loop(ex, n, L, S):
    Lz = tonum(L)

    def havoc(ex, env, ghost):
        k = next(ex.fresh)
        env['lfsr'] = BVInt(z3.BitVec(f'lfsr!{k}', W))
        env['index'] = z3.Int(f'index!{k}')
        P = z3.Function(f'prbs!{k}', z3.IntSort(), z3.BitVecSort(W))
        arr = env['prbs']
        if not isinstance(arr, Arr) or arr.view:
            raise Unsupported('loop local prbs is not an owned array')
        arr.elem = lambda idx: BVInt(P(tonum(idx[0])))
        # definitional instance of the ghost sequence at the current index
        ex.assume(S(env['index'] + 1) == spec_next(S(env['index']), n))

    def inv(ex, env, ghost):
        for name in ('lfsr', 'index', 'prbs'):
            if name not in env:
                raise Unsupported(f'loop invariant of PRBS names the local `{name}`, which no longer exists')
        lf = _bv(env['lfsr'])
        idx = tonum(env['index'])
        arr_ = env['prbs']
        arr = Arr(arr_.shape, arr_.elem, arr_.kind)      # contents as of now (the array object is mutated later)
        conj = [idx >= 0, idx <= Lz, lf == S(idx), lf != 0, z3.ULT(lf, z3.BitVecVal(2 ** n, W)),
                z3.ULT(lf, z3.BitVecVal(2 ** 62, W))]
        foralls = [lambda k: z3.Implies(z3.And(k >= 0, k < idx), _bv(arr.elem((k,))) == (S(k) & 1))]
        return conj, foralls
    ex.loopspecs[('devices.PRBS', 0)] = LoopSpec('C04.loop', havoc, inv)


def run_prbs(K, n, seed_kind):
    L = z3.Int('len')
    seed = z3.Int('seed') if seed_kind == 'int' else None
    S = z3.Function('S', z3.IntSort(), z3.BitVecSort(W))
    k0 = z3.Int('k0')
    pre = [S(0) == z3.Int2BV(spec_seed(seed, n), W)]

    def setup(ex):
        setup_loop(ex, n, L, S)
        ex.add_index_term(k0)

    def run(ex):
        fn = Fn(*K.repo.find('devices.PRBS')[:2])
        return ex.call_fn(fn, [n, L, seed], {'return_seed': True})
    paths = K.paths(run, pre, setup, expect_loops=True)
    rep = make_replay(n, L, seed)
    small = [L <= 40, L >= -2] + ([seed <= 2 ** (n + 1), seed >= -2 ** (n + 1)] if seed is not None else [])
    tag = f'[n={n},seed={seed_kind}]'
    nret = nend = nraise = 0
    for p in paths:
        sig = p.signature()
        has_warn = any(e[0] == 'warn' for e in p.events)
        if seed is not None:
            K.prove(f'seed_norm.warn{tag}[{sig}]', p.pc, (seed % (2 ** n) == 0) == has_warn, replay=rep, small=small,
                    words='a warning is issued exactly when the seed is congruent to 0 mod 2^n')
        else:
            if has_warn:
                K.fail(f'seed_norm.warn{tag}[{sig}]', 'warning issued for the default seed')
        if p.kind == 'raise':
            nraise += 1
            K.prove(f'validate.len_nonpositive{tag}[{sig}]', p.pc, L <= 0 if p.value == 'ValueError' else False, replay=rep, small=small,
                    words='only a non-positive len is rejected, and with ValueError')
            continue
        for (name, pc, conj, foralls, words, hyp_foralls) in p.ex.obls:
            if name.endswith('.init') and p.kind != 'end':
                continue    # the establishment obligation is identical on all continuations; discharge it once (on the iteration path)
        K.discharge_loop_obls(p, prefix=f'{tag}', replay=search_replay(n)) if p.kind == 'end' else None
        if p.kind == 'end':
            nend += 1
            continue
        nret += 1
        out, state = p.value
        data = out.f['data']
        K.prove(f'post.len{tag}[{sig}]', p.pc, tonum(data.shape[0]) == L, replay=rep, small=small, words='output has exactly len bits')
        K.prove(f'post.positive_len{tag}[{sig}]', p.pc, L > 0, replay=rep, small=small, words='normal return only for len > 0')
        K.prove(f'post.bits{tag}[{sig}]', list(p.pc) + [k0 >= 0, k0 < L], _bv(data.elem((k0,))) == (S(k0) & 1), replay=rep, small=small,
                words='bit k of the output is bit0(S(k)), S the ghost sequence of the documented recurrence started at the normalised seed')
        K.prove(f'post.state{tag}[{sig}]', p.pc, _bv(state) == S(L), replay=rep, small=small, words='returned state is S(len)')
        K.prove(f'post.state_range{tag}[{sig}]', p.pc, z3.And(_bv(state) != 0, z3.ULT(_bv(state), z3.BitVecVal(2 ** n, W))), replay=rep, small=small,
                words='returned state lies in [1, 2^n): resuming from it needs no normalisation')
        K.prove(f'post.uint8{tag}[{sig}]', list(p.pc) + [k0 >= 0, k0 < L], z3.ULE(_bv(data.elem((k0,))), z3.BitVecVal(1, W)), words='stored data are 0/1')
    K.cover(f'cover.normal{tag}', [c for p in paths if p.kind == 'ret' for c in [z3.And(*p.pc)]][:1] or [False])
    if not (nret >= 1 and nend >= 1 and nraise >= 1):
        K.undecided(f'paths{tag}', f'expected normal, iteration and ValueError paths, got ret={nret} iter={nend} raise={nraise}')
    return paths


def _mk_loop_clause(n):
    @clause(f'C04.loop[{n}]', min_obl=12)
    def f(K):
        run_prbs(K, n, 'int')
        run_prbs(K, n, 'none')
    f.__name__ = f'loop_{n}'
    return f


for _n in TAPS:
    globals()[f'loop_{_n}'] = _mk_loop_clause(_n)


@clause('C04.resume', min_obl=3 * 7)
def resume(K):
    for n in TAPS:
        si = z3.Int('state')
        # (a) a returned state (an integer in [1, 2^n) by C04.loop post.state_range) is its own normalised seed
        K.prove(f'seed_identity[{n}]', [si >= 1, si < 2 ** n], spec_seed(si, n) == si,
                words='for a state in [1,2^n) the seed normalisation of the second call is the identity')
        # (b) the ghost sequence restarted at S(a) is the shifted sequence: induction over k
        S = z3.Function('S', z3.IntSort(), z3.BitVecSort(W))
        S2 = z3.Function('S2', z3.IntSort(), z3.BitVecSort(W))
        a, k = z3.Ints('a k')
        K.prove(f'shift.base[{n}]', [S2(0) == S(a)], S2(0) == S(a + 0), words='resume lemma, base case')
        K.prove(f'shift.step[{n}]', [k >= 0, S2(k) == S(a + k), S2(k + 1) == spec_next(S2(k), n), S(a + k + 1) == spec_next(S(a + k), n)],
                S2(k + 1) == S(a + (k + 1)), words='resume lemma, induction step: second call emits bit0(S(a+k)), i.e. PRBS(a+b) = PRBS(a) ++ PRBS(b, seed=state)')


@clause('C04.frame', min_obl=6)
def frame(K):
    """no state kept between calls, results not shared between callers: short concrete lengths (the loop unrolls), symbolic seed;
    independent of the loop contract, so it still speaks when the generator loop is moved into a helper"""
    from .common import frame_violations, purity_violations
    fn = Fn(*K.repo.find('devices.PRBS')[:2])
    seed = z3.Int('seed')
    for n in (7, 9, 31):
        for ln in (1, 6):
            for rs in (False, True):
                ps = K.paths(lambda ex: ex.call_fn(fn, [n, ln, seed], {'return_seed': rs}), [seed >= 1, seed < 2 ** n])
                for p in ps:
                    sig = f'{n},len={ln},return_seed={rs}][{p.signature()}'
                    if p.kind != 'ret':
                        K.prove(f'noraise[{sig}]', p.pc, False, words='PRBS accepts a seed in 1..2^n-1 and a positive length')
                        continue
                    bad = frame_violations(p)
                    (K.fail if bad else K.ok)(f'frame[{sig}]', '; '.join(bad) if bad else 'no module-level state written, no memoised mutable result: equal calls give independent, equal results')


@clause('C04.validate', min_obl=10)
def validate(K):
    fn = Fn(*K.repo.find('devices.PRBS')[:2])
    # non-integer len -> TypeError
    for n in (7, 31):
        Lr = z3.Real('len_r')
        ps = K.paths(lambda ex: ex.call_fn(fn, [n, Lr, z3.Int('seed')], {}))
        for p in ps:
            if p.kind == 'raise' and p.value == 'TypeError':
                K.ok(f'len_type[{n}][{p.signature()}]', 'float len is rejected with TypeError')
            else:
                K.fail(f'len_type[{n}][{p.signature()}]', f'float len: outcome {p.kind} {p.value}', confirmed=False)
    # unsupported orders -> ValueError (integers outside the table)
    for order in (1, 2, 3, 8, 10, 16, 32, 64, -1, -7, 0):
        for seed in (None, z3.Int('seed')):
            ps = K.paths(lambda ex: ex.call_fn(fn, [order, 5, seed], {}))
            for p in ps:
                nm = f'order[{order},{"seed" if seed is not None else "none"}][{p.signature()}]'
                if p.kind == 'raise' and p.value == 'ValueError':
                    K.ok(nm, 'unsupported order is rejected with ValueError')
                else:
                    def rep(m, order=order, seed=seed):
                        sc = None if seed is None else 5
                        st, got = run_native(lambda: native_prbs(order, 5, sc), 20)
                        return {'confirmed': not (st == 'ok' and got.get('raised') == 'ValueError'), 'inputs': {'order': order, 'len': 5, 'seed': sc}, 'observed': got}
                    K.prove(nm, p.pc, False, replay=rep, words='unsupported order must raise ValueError')
    # len=None -> 2^n - 1 bits
    for n in TAPS:
        S = z3.Function('S', z3.IntSort(), z3.BitVecSort(W))
        seed = z3.Int('seed')

        def setup(ex, n=n):
            setup_loop(ex, n, 2 ** n - 1, S)
        ps = K.paths(lambda ex: ex.call_fn(fn, [n], {'seed': seed}), [S(0) == z3.Int2BV(spec_seed(seed, n), W)], setup, expect_loops=True)
        for p in ps:
            if p.kind == 'ret':
                K.prove(f'default_len[{n}][{p.signature()}]', p.pc, tonum(p.value.f['data'].shape[0]) == 2 ** n - 1, words='len=None gives one full period 2^n-1')
            elif p.kind == 'raise':
                K.fail(f'default_len[{n}][{p.signature()}]', f'len=None raised {p.value}')


# ------------------------------------------------------------------------------------------------ period / balance
def gf2_mul(A, B, n):
    """matrices as lists of n column bitmasks; (A*B) column j = A * (column j of B)"""
    out = []
    for j in range(n):
        c = B[j]
        acc = 0
        i = 0
        while c:
            if c & 1:
                acc ^= A[i]
            c >>= 1
            i += 1
        out.append(acc)
    return out


def gf2_pow(T, e, n):
    R = [1 << j for j in range(n)]
    B = T
    while e:
        if e & 1:
            R = gf2_mul(R, B, n)
        B = gf2_mul(B, B, n)
        e >>= 1
    return R


def gf2_rank(M, n):
    rows = list(M)
    r = 0
    for b in range(n):
        piv = None
        for i in range(r, len(rows)):
            if rows[i] >> b & 1:
                piv = i
                break
        if piv is None:
            continue
        rows[r], rows[piv] = rows[piv], rows[r]
        for i in range(len(rows)):
            if i != r and rows[i] >> b & 1:
                rows[i] ^= rows[r]
        r += 1
    return r


def factorise(N):
    ps = []
    d = 2
    while d * d <= N:
        if N % d == 0:
            ps.append(d)
            while N % d == 0:
                N //= d
        d += 1 if d == 2 else 2
    if N > 1:
        ps.append(N)
    return ps


def polymod_pow_x(e, n, t):
    """x^e mod (x^n + x^t + 1) over GF(2), polynomials as bitmasks"""
    mod = (1 << n) | (1 << t) | 1

    def mulmod(a, b):
        r = 0
        while b:
            if b & 1:
                r ^= a
            b >>= 1
            a <<= 1
            if a >> n & 1:
                a ^= mod
        return r
    r, b = 1, 2
    while e:
        if e & 1:
            r = mulmod(r, b)
        b = mulmod(b, b)
        e >>= 1
    return r


def code_step(K, n):
    """the loop body's state update, extracted by symbolic execution of the real loop body: (pre bv var, post bv term)"""
    L = z3.Int('len')
    S = z3.Function('S', z3.IntSort(), z3.BitVecSort(W))
    fn = Fn(*K.repo.find('devices.PRBS')[:2])
    ps = K.paths(lambda ex: ex.call_fn(fn, [n, L, z3.Int('seed')], {'return_seed': True}), [], lambda ex: setup_loop(ex, n, L, S), expect_loops=True)
    for p in ps:
        if p.kind == 'end':
            ghost, env = p.ex.loop_post['C04.loop']
            post = _bv(env['lfsr'])
            pre = [v for v in z3_vars(post) if v.decl().name().startswith('lfsr!')]
            if len(pre) == 1:
                return pre[0], post, p
    raise Unsupported('could not extract the loop body step')


def z3_vars(t):
    seen, out, st = set(), [], [t]
    while st:
        x = st.pop()
        if x.get_id() in seen:
            continue
        seen.add(x.get_id())
        if z3.is_const(x) and x.decl().kind() == z3.Z3_OP_UNINTERPRETED:
            out.append(x)
        st.extend(x.children())
    return out


def _mk_period_clause(n):
    @clause(f'C04.period[{n}]', min_obl=5)
    def f(K):
        pre, post, p = code_step(K, n)
        a, b = z3.BitVecs('a b', W)
        lim = z3.BitVecVal(2 ** n, W)
        step = lambda x: z3.substitute(post, (pre, x))
        def rp(m):
            return search_replay(n, [mval(m, a), mval(m, b), mval(m, a) ^ mval(m, b)])(m)
        K.prove('linear', [z3.ULT(a, lim), z3.ULT(b, lim)], step(a ^ b) == step(a) ^ step(b), replay=rp, words='the code step is additive over GF(2) on n-bit states')
        K.prove('zero', [], step(z3.BitVecVal(0, W)) == 0, replay=search_replay(n), words='step(0) = 0')
        K.prove('closed', [z3.ULT(a, lim)], z3.ULT(step(a), lim), replay=rp, words='step maps n-bit states to n-bit states')
        K.prove('nonzero', [z3.ULT(a, lim), a != 0], step(a) != 0, replay=rp, words='a non-zero state never becomes zero')
        K.prove('matches_spec', [z3.ULT(a, lim)], step(a) == spec_next(a, n), replay=rp, words='code step = documented recurrence (shift, feedback bit(n-1) xor bit(t-1))')
        T = [z3.simplify(step(z3.BitVecVal(1 << j, W))).as_long() for j in range(n)]
        N = 2 ** n - 1
        I = [1 << j for j in range(n)]
        TN = gf2_pow(T, N, n)
        if TN == I:
            K.ok('TN_is_identity', f'T^(2^{n}-1) = I over GF(2) (exact matrix arithmetic)', solver='gf2')
        else:
            K.fail('TN_is_identity', f'T^N != I for order {n}: the generator does not have period dividing 2^n-1', confirmed=False)
        qs = factorise(N)
        for q in qs:
            M = gf2_pow(T, N // q, n)
            D = [M[j] ^ I[j] for j in range(n)]
            rk = gf2_rank(D, n)
            if rk == n:
                K.ok(f'nonsingular[q={q}]', f'rank(T^(N/{q}) - I) = {n}: no non-zero state returns after N/{q} steps', solver='gf2')
            else:
                K.fail(f'nonsingular[q={q}]', f'rank(T^(N/{q}) - I) = {rk} < {n}: some non-zero state has period dividing N/{q}', confirmed=False)
        # independent cross-check of the matrix routine through polynomial arithmetic
        t = TAPS[n]
        ok = polymod_pow_x(N, n, t) == 1 and all(polymod_pow_x(N // q, n, t) != 1 for q in qs)
        if ok:
            K.ok('poly_crosscheck', f'x^N = 1 and x^(N/q) != 1 mod x^{n}+x^{t}+1 for q in {qs}: the documented polynomial is primitive', solver='gf2')
        else:
            K.fail('poly_crosscheck', 'documented polynomial is not primitive according to polynomial arithmetic')
        K.ok('balance', f'all 2^{n}-1 non-zero states lie on one cycle (T^N v = v, T^(N/q) v != v for all v != 0 and primes q | N, lemma exact_period); '
                        f'exactly 2^{n - 1} of the non-zero n-bit states have bit0 = 1, so one period has 2^{n - 1} ones', solver='counting')
    f.__name__ = f'period_{n}'
    return f


for _n in TAPS:
    globals()[f'period_{_n}'] = _mk_period_clause(_n)


@clause('C04.lean', min_obl=1, tier='thorough')
def lean_lemma(K):
    import subprocess, os, time
    here = os.path.dirname(os.path.dirname(os.path.abspath(__file__)))
    t = time.time()
    try:
        r = subprocess.run(['lean', os.path.join(here, 'lean', 'Period.lean')], capture_output=True, text=True, timeout=900,
                           env=dict(os.environ, LEAN_PATH=os.environ.get('LEAN_PATH', '')))
        if r.returncode == 0 and 'error' not in r.stdout + r.stderr and 'sorry' not in r.stdout + r.stderr:
            K.ok('exact_period', f'Lean kernel accepted lean/Period.lean in {time.time() - t:.1f}s', solver='lean4')
        else:
            K.undecided('exact_period', 'lean did not accept the lemma: ' + (r.stdout + r.stderr)[-400:])
    except Exception as e:
        K.undecided('exact_period', f'lean run failed: {e}')


@clause('C04.bounded', min_obl=1)
def bounded(K):
    rng = random.Random(K.seed)
    nbits = 10000 if K.tier == 'thorough' else 2000
    cases = []
    for n in TAPS:
        for _ in range(6 if K.tier == 'thorough' else 2):
            seed = rng.choice([None, 0, 1, 2 ** n, -3, rng.randrange(1, 2 ** n), rng.randrange(-2 ** 40, 2 ** 40)])
            cases.append((n, seed, rng.randrange(1, nbits), rng.random()))

    def work():
        bad = []
        for (n, seed, L, frac) in cases:
            got = native_prbs(n, L, seed)
            bits, state = reference(n, seed, L)
            if got.get('bits') != bits or got.get('state') != state:
                bad.append({'order': n, 'seed': seed, 'len': L})
                continue
            a = max(1, int(L * frac)) if L > 1 else 1
            if a < L:
                g1 = native_prbs(n, a, seed)
                g2 = native_prbs(n, L - a, g1['state'])
                if g1['bits'] + g2['bits'] != bits:
                    bad.append({'order': n, 'seed': seed, 'len': L, 'split': a})
        return bad
    st, bad = run_native(work, 600)
    ok = st == 'ok' and not bad
    K.bounded('crosscheck', ok, {'evaluations': len(cases) * 3, 'distinct_nontrivial': len(set((c[0], c[1], c[2]) for c in cases)),
                                 'bound': f'{len(cases)} (order, seed, len<= {nbits}, split) cases', 'samples': [{'order': c[0], 'seed': c[1], 'len': c[2]} for c in cases[:3]],
                                 'failures': bad if st == 'ok' else st, 'confirmed': True})


def frame_runs(K):
    L = z3.Int('len')
    S = z3.Function('S', z3.IntSort(), z3.BitVecSort(W))
    f = Fn(*K.repo.find('devices.PRBS')[:2])
    return [('devices.PRBS', lambda ex: ex.call_fn(f, [7, L, z3.Int('seed')], {'return_seed': True}), [S(0) == z3.Int2BV(spec_seed(z3.Int('seed'), 7), W)],
             lambda ex: setup_loop(ex, 7, L, S))]
