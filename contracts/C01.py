"""C01 - signal containers keep their shape/noise contract; operands are never touched.

Under contract (typing.py): electrical_signal.__init__, optical_signal.__init__, __add__, __radd__, __sub__, __rsub__, __mul__,
__rmul__, both __getitem__, copy, len.  Abstract view of an object: (class, n_pol, N, signal, noise|None, dtype kind).
WF: electrical -> signal 1-D, N >= 1;  optical -> 1-D with n_pol = 1, or shape (2, N) with n_pol = 2;  noise None or of the signal's shape.
Every operator's postcondition is the array-pair model step, so every expression tree satisfies the model by induction on the tree.
"""
import itertools
import z3
from pyvc.vc import clause, mval
from pyvc.values import *
from pyvc.interp import SliceV
from pyvc import reduce as red
from .common import *

LEVEL = 'proof'
LEVEL_TEXT = ('Proof for all lengths N >= 1 and all sample values: the real constructors, the six arithmetic operators (scalar, length-1, same-class, list and ndarray operands; every noise pattern; '
              'one- and two-polarisation layouts), both __getitem__ (ints incl. negative, open and stepped slices) and copy() are executed symbolically; well-formedness, class/n_pol/length, '
              'noise-iff, the total-field law for + and -, ValueError on length mismatch, slicing values and operand/result non-aliasing (allocation provenance, store log) are discharged. '
              'String operands, numpy dtype promotion (np.result_type value rules) and random expression trees of depth <= 6 are a bounded cross-check of the same model.')
LEVEL_NOTE = 'dtype kinds (bool<int<float<complex) are tracked, numpy\'s value-based promotion is not; str operands go through str2array (regex) and are bounded; mixed 1-/2-polarisation operands and ndarray left operands are outside the quantifier'
EXPLANATION = LEVEL_TEXT
BOUNDED_RULE = 'random expression trees of depth <= 6 over +,-,*,slicing,copy on the real classes vs a plain (signal, noise) array-pair model, write-protected operands; distinct = distinct (class, layout, length, tree)'

CLASSES = ('electrical_signal', 'optical_signal')


def wf(o, N=None):
    """list of z3 Bool / python bool conjuncts of the container contract"""
    f = o.f
    s, nz = f.get('signal'), f.get('noise')
    out = []
    if not isinstance(s, Arr):
        return [False]
    if o.cls == 'electrical_signal':
        out.append(s.ndim == 1)
    else:
        npol = f.get('n_pol')
        out.append((s.ndim == 1 and conc(npol) == 1) or (s.ndim == 2 and conc(s.shape[0]) == 2 and conc(npol) == 2))
    if not all(x is True for x in out):
        return [False]
    n = s.shape[-1]
    out.append(toz(tobool(s_cmp('GtE', n, 1))))
    if N is not None:
        out.append(toz(tobool(s_eq(n, N))))
    if nz is not None:
        out.append(isinstance(nz, Arr) and nz.ndim == s.ndim)
        if isinstance(nz, Arr) and nz.ndim == s.ndim:
            for a, b in zip(nz.shape, s.shape):
                out.append(toz(tobool(s_eq(a, b))))
    return out


def And_(cs):
    cs = [c for c in cs if c is not True]
    if any(c is False for c in cs):
        return z3.BoolVal(False)
    return z3.And(*cs) if cs else z3.BoolVal(True)


def total(o, idx):
    """signal+noise at index tuple idx (length-1 broadcasting applied by the caller)"""
    v = o.f['signal'].elem(idx)
    if o.f.get('noise') is not None:
        v = s_add(v, o.f['noise'].elem(idx))
    return v


def bidx(o, idx):
    """index into an operand that may have length 1 (broadcast) and fewer axes"""
    s = o.f['signal']
    idx = idx[-s.ndim:] if s.ndim < len(idx) else idx
    return tuple(0 if conc(d) == 1 else i for d, i in zip(s.shape, idx))


def mk_obj(ex, cls, name, N, n_pol=1, noise=False, kind='float'):
    if cls == 'electrical_signal':
        return mk_esig(ex, name, N, noise=noise, kind=kind)
    return mk_osig(ex, name, N, n_pol=n_pol, noise=noise, kind=kind)


def fresh_result(p, res, operands):
    bad = frame_violations(p)
    provs = set(p.ex.param_provs)
    for nm in ('signal', 'noise'):
        a = res.f.get(nm)
        if isinstance(a, Arr) and (a.prov in provs):
            bad.append(f'result.{nm} shares the buffer of {p.ex.param_provs[a.prov]}')
    return bad


def native_container_check(kind):
    """replay oracle: a handful of concrete operator cases against the array-pair model (see also the bounded tree check)"""
    import numpy as np
    from opticomlib.typing import electrical_signal as E, optical_signal as O
    bad = []
    for cls in (E, O):
        for N in (1, 2, 5):
            a = np.arange(N) + 1.0
            cases = [(cls(a), cls([2.0], [0.5])), (cls(a, a * 0.1), cls([2.0], [0.5])), (cls(a), cls(3.0)), (cls(a, a * 0.1), cls(a * 2, a * 0.3)), (cls(a), cls(a * 2, a * 0.3))]
            for x, y in cases:
                for op, f in (('+', lambda u, v: u + v), ('-', lambda u, v: u - v), ('*', lambda u, v: u * v)):
                    try:
                        r = f(x, y)
                        tx = x.signal + (x.noise if x.noise is not None else 0)
                        ty = y.signal + (y.noise if y.noise is not None else 0)
                        tr = r.signal + (r.noise if r.noise is not None else 0)
                        ok = type(r) is cls and r.signal.shape == x.signal.shape and (r.noise is None) == (x.noise is None and y.noise is None) and (r.noise is None or r.noise.shape == r.signal.shape)
                        if op in '+-':
                            ok = ok and np.allclose(tr, tx + ty if op == '+' else tx - ty)
                        if not ok:
                            bad.append([cls.__name__, N, op, 'model mismatch'])
                    except Exception as e:
                        bad.append([cls.__name__, N, op, f'{type(e).__name__}: {e}'[:90]])
    try:
        o = O(1.0, 0.5, n_pol=2)
        if o.signal.shape != (2, 1) or o.noise.shape != (2, 1):
            bad.append(['optical ctor scalar+noise n_pol=2', str(o.signal.shape)])
    except Exception as e:
        bad.append(['optical ctor scalar+noise n_pol=2', f'{type(e).__name__}'])
    return not bad, bad[:6]


def rep_generic(m):
    st, out = native(lambda: native_container_check('ops'))
    return {'confirmed': st != 'ok' or not out[0], 'inputs': 'operator cases: length N in {1,2,5}, length-1 / scalar / same-length right operands, every noise pattern', 'observed': out}


# ------------------------------------------------------------------ constructors
@clause('C01.ctor', min_obl=20)
def ctor(K):
    N, i = z3.Ints('N i')
    # electrical_signal
    for shape_kind in ('scalar', '1d', '2d'):
        for noise_kind in ('none', 'same', 'other'):
            for dt in (None, 'complex'):
                def run(ex):
                    if shape_kind == 'scalar':
                        s = z3.Real('s0')
                        nz = {'none': None, 'same': z3.Real('n0'), 'other': real_arr('nz', [N])}[noise_kind]
                    elif shape_kind == '1d':
                        s = real_arr('s', [N])
                        nz = {'none': None, 'same': real_arr('nz', [N]), 'other': real_arr('nz', [N + 1])}[noise_kind]
                    else:
                        s = real_arr('s', [2, N])
                        nz = {'none': None, 'same': real_arr('nz', [2, N]), 'other': real_arr('nz', [N])}[noise_kind]
                    for a, nm in ((s, 'signal'), (nz, 'noise')):
                        if isinstance(a, Arr):
                            ex.param_provs[a.prov] = nm
                    from pyvc.extern import DType
                    return s, nz, ex.instantiate('electrical_signal', [s, nz], {'dtype': DType(dt) if dt else None})
                ps = K.paths(run, [N >= 0, i >= 0, i < N])
                for p in ps:
                    sig = f'E,{shape_kind},{noise_kind},{dt}][{p.signature()}'
                    must_reject = shape_kind == '2d' or noise_kind == 'other'
                    if p.kind == 'raise':
                        ok_reject = z3.BoolVal(True) if must_reject else (N == 0 if shape_kind == '1d' else z3.BoolVal(False))
                        K.prove(f'reject[{sig}]', p.pc, z3.And(ok_reject, p.value == 'ValueError'), replay=rep_generic, words='only empty / 2-D / noise-shape-mismatch inputs are rejected, with ValueError')
                        continue
                    s, nz, o = p.value
                    if must_reject:
                        K.prove(f'must_reject[{sig}]', p.pc, False, words='2-D data or a noise of another shape must be rejected')
                        continue
                    n_exp = 1 if shape_kind == 'scalar' else N
                    K.prove(f'wf[{sig}]', p.pc, And_(wf(o, n_exp)), replay=rep_generic, words='constructed object satisfies the container contract with the expected length')
                    so = o.f['signal']
                    src = (lambda j: s) if shape_kind == 'scalar' else (lambda j: s.elem((j,)))
                    K.prove(f'value[{sig}]', list(p.pc) + ([i < 1] if shape_kind == 'scalar' else []), eq_scalar(s_cast(src(i), so.kind), so.elem((i,))), words='stored samples equal the input samples')
                    if (o.f['noise'] is None) != (nz is None):
                        K.fail(f'noise_presence[{sig}]', 'noise presence changed by the constructor')
                    exp_kind = dt or 'float'
                    (K.ok if so.kind == exp_kind and (o.f['noise'] is None or o.f['noise'].kind == exp_kind) else K.fail)(f'dtype[{sig}]', f'dtype kind {so.kind}, expected {exp_kind}')
                    bad = fresh_result(p, o, [])
                    (K.fail if bad else K.ok)(f'fresh[{sig}]', '; '.join(bad) if bad else 'stored arrays are fresh copies of the inputs')
    # optical_signal
    for shape_kind in ('scalar', '1d', '1xn', '2xn', '3xn', '3d'):
        for npol in (None, 1, 2):
            for noise_kind in ('none', 'same', 'other'):
                def run(ex):
                    shp = {'scalar': None, '1d': [N], '1xn': [1, N], '2xn': [2, N], '3xn': [3, N], '3d': [2, 2, N]}[shape_kind]
                    if shp is None:
                        s = Cx(z3.Real('sr'), z3.Real('si'))
                        nz = {'none': None, 'same': Cx(z3.Real('nr'), z3.Real('ni')), 'other': cx_arr('nz', [N + 2])}[noise_kind]
                    else:
                        s = cx_arr('s', shp)
                        oth = [N + 1] if len(shp) == 1 else shp[:-1] + [N + 1]
                        nz = {'none': None, 'same': cx_arr('nz', shp), 'other': cx_arr('nz', oth)}[noise_kind]
                    for a, nm in ((s, 'signal'), (nz, 'noise')):
                        if isinstance(a, Arr):
                            ex.param_provs[a.prov] = nm
                    return s, nz, ex.instantiate('optical_signal', [s, nz], {'n_pol': npol})
                ps = K.paths(run, [N >= 1])
                for p in ps:
                    sig = f'O,{shape_kind},n_pol={npol},{noise_kind}][{p.signature()}'
                    must_reject = shape_kind in ('3xn', '3d') or noise_kind == 'other'
                    if p.kind == 'raise':
                        K.prove(f'reject[{sig}]', p.pc, z3.And(z3.BoolVal(must_reject), p.value == 'ValueError'), replay=rep_generic,
                                words='scalar / 1-D / <=2-row 2-D inputs with matching noise must construct; everything else is rejected with ValueError')
                        continue
                    s, nz, o = p.value
                    if must_reject:
                        K.prove(f'must_reject[{sig}]', p.pc, False, words='more than two rows, 3-D data or a noise of another shape must be rejected')
                        continue
                    n_exp = 1 if shape_kind == 'scalar' else N
                    K.prove(f'wf[{sig}]', p.pc, And_(wf(o, n_exp)), replay=rep_generic, words='constructed optical_signal satisfies the container contract with the expected length')
                    if npol is not None and conc(o.f.get('n_pol')) != npol:
                        K.fail(f'n_pol[{sig}]', f'requested n_pol={npol}, got {o.f.get("n_pol")}')
                    if (o.f['noise'] is None) != (nz is None):
                        K.fail(f'noise_presence[{sig}]', 'noise presence changed by the constructor')
                    bad = fresh_result(p, o, [])
                    (K.fail if bad else K.ok)(f'fresh[{sig}]', '; '.join(bad) if bad else 'stored arrays are fresh copies of the inputs')
    K.cover('cover', [N >= 1])


# ------------------------------------------------------------------ operators
OPS = {'add': ('__add__', '+'), 'radd': ('__radd__', '+'), 'sub': ('__sub__', '-'), 'rsub': ('__rsub__', 'r-'), 'mul': ('__mul__', '*'), 'rmul': ('__rmul__', '*')}


def _mk_op_clause(cls, opname):
    meth, sym = OPS[opname]

    @clause(f'C01.op.{opname}[{cls}]', min_obl=20)
    def f(K):
        N, M_, i = z3.Ints('N M i')
        layouts = [(1,)] if cls == 'electrical_signal' else [(1,), (2,)]
        for (npol,) in layouts:
            for okind in ('same', 'len1', 'self_len1', 'scalar', 'list1', 'ndarray', 'other_len'):
                for (n1, n2) in itertools.product((False, True), repeat=2):
                    if okind in ('scalar', 'list1', 'ndarray') and n2:
                        continue          # plain operands carry no noise
                    kind = 'float' if cls == 'electrical_signal' else 'complex'

                    def run(ex):
                        a = mk_obj(ex, cls, 'a', N, npol, n1, kind)
                        if okind == 'same':
                            b = mk_obj(ex, cls, 'b', N, npol, n2, kind)
                        elif okind == 'len1':
                            b = mk_obj(ex, cls, 'b', 1, 1, n2, kind)
                        elif okind == 'self_len1':
                            a = mk_obj(ex, cls, 'a', 1, 1, n1, kind)
                            b = mk_obj(ex, cls, 'b', N, npol, n2, kind)
                        elif okind == 'other_len':
                            b = mk_obj(ex, cls, 'b', M_, npol, n2, kind)
                        elif okind == 'scalar':
                            b = z3.Real('c')
                        elif okind == 'list1':
                            b = [z3.Real('c')]
                        else:
                            b = real_arr('b_arr', [N])
                            ex.param_provs[b.prov] = 'operand array'
                        return a, b, ex.call(ex.get_method(a, meth), [b], {})
                    pre = [N >= (2 if okind == 'other_len' else 1), M_ >= 2, M_ != N, i >= 0, i < N]
                    ps = K.paths(run, pre)
                    for p in ps:
                        sig = f'{npol}pol,{okind},noise={int(n1)}{int(n2)}][{p.signature()}'
                        if okind == 'other_len':
                            (K.ok if p.kind == 'raise' and p.value == 'ValueError' else K.fail)(f'reject[{sig}]', f'operands of different lengths: {p.kind} {p.value}')
                            continue
                        if p.kind != 'ret':
                            K.prove(f'total[{sig}]', p.pc, False, replay=rep_generic, words='operands of equal length, length 1 or scalars are accepted')
                            continue
                        a, b, r = p.value
                        if not isinstance(r, Obj) or r.cls != cls:
                            K.fail(f'class[{sig}]', f'result is {r!r}')
                            continue
                        K.prove(f'wf[{sig}]', p.pc, And_(wf(r, N)), replay=rep_generic, words='result satisfies the container contract, same length')
                        if cls == 'optical_signal' and conc(r.f.get('n_pol')) != npol:
                            K.fail(f'n_pol[{sig}]', f'polarisation count changed: {r.f.get("n_pol")}')
                        has_noise = n1 or n2
                        ((K.ok if (r.f['noise'] is not None) == has_noise else K.fail))(f'noise_iff[{sig}]', f'result noise present={r.f["noise"] is not None}, operands {n1},{n2}')
                        if sym != '*' and all(x is not False for x in wf(r, N)):
                            idx = (i,) if npol == 1 else (z3.Int('pol'), i)
                            hy = list(p.pc) + ([z3.Int('pol') >= 0, z3.Int('pol') < 2] if npol == 2 else [])
                            ta = total(a, bidx(a, idx))
                            if isinstance(b, Obj):
                                tb = total(b, bidx(b, idx))
                            elif isinstance(b, list):
                                tb = b[0]
                            elif isinstance(b, Arr):
                                tb = b.elem((i,))
                            else:
                                tb = b
                            exp = s_add(ta, tb) if sym == '+' else (s_sub(ta, tb) if sym == '-' else s_sub(tb, ta))
                            K.prove(f'total_field[{sig}]', hy, eq_scalar(total(r, idx), exp), replay=rep_generic,
                                    words='signal+noise of the result = sum/difference of the operands\' signal+noise (length-1 and scalar operands broadcast)')
                        bad = fresh_result(p, r, [a, b])
                        (K.fail if bad else K.ok)(f'fresh[{sig}]', '; '.join(bad) if bad else 'operands untouched; result arrays freshly allocated')
    f.__name__ = f'op_{opname}_{cls}'
    return f


for _c in CLASSES:
    for _o in OPS:
        _f = _mk_op_clause(_c, _o)
        globals()[_f.__name__] = _f


# ------------------------------------------------------------------ slicing / copy
@clause('C01.slice', min_obl=20)
def slicing(K):
    N, i, lo, hi, st, k = z3.Ints('N i lo hi st k')
    forms = {'lo:hi:st': (SliceV(lo, hi, st), [st >= 1]), 'lo:': (SliceV(lo, None, None), []), ':hi': (SliceV(None, hi, None), []), '::st': (SliceV(None, None, st), [st >= 1]), ':': (SliceV(None, None, None), [])}
    for cls in CLASSES:
        for npol in ((1,) if cls == 'electrical_signal' else (1, 2)):
            for noise in (False, True):
                kind = 'float' if cls == 'electrical_signal' else 'complex'
                for nm, (sl, pre) in forms.items():
                    def run(ex):
                        a = mk_obj(ex, cls, 'a', N, npol, noise, kind)
                        refs = {}
                        for part in ('signal', 'noise'):
                            if a.f[part] is not None:
                                refs[part] = arrays.getitem(ex, a.f[part], sl if npol == 1 else (SliceV(None, None, None), sl))     # numpy basic slicing (assumed contract)
                        return a, refs, ex.subscript(a, sl)
                    ps = K.paths(run, [N >= 1, i >= 0] + pre)
                    for p in ps:
                        sig = f'{cls},{npol}pol,noise={noise},{nm}][{p.signature()}'
                        if p.kind == 'raise':
                            # only an empty selection may raise
                            K.prove(f'empty_only[{sig}]', p.pc, z3.BoolVal(p.value == 'ValueError'), words='slicing raises only ValueError (empty selection)')
                            continue
                        a, refs, r = p.value
                        cnt = refs['signal'].shape[-1]
                        K.prove(f'wf[{sig}]', p.pc, And_(wf(r, cnt)), words='slice result satisfies the contract; length = number of selected samples')
                        if r.cls != cls or (cls == 'optical_signal' and conc(r.f.get('n_pol')) != npol):
                            K.fail(f'class[{sig}]', f'class / n_pol changed: {r.cls} {r.f.get("n_pol")}')
                        for part in ('signal', 'noise'):
                            if (a.f[part] is None) != (r.f[part] is None):
                                K.fail(f'{part}_presence[{sig}]', f'{part} presence changed by slicing')
                            elif a.f[part] is not None and isinstance(r.f[part], Arr) and r.f[part].ndim == refs[part].ndim:
                                idx = (i,) if npol == 1 else (z3.Int('pol'), i)
                                hy = list(p.pc) + [i < tonum(cnt)] + ([z3.Int('pol') >= 0, z3.Int('pol') < 2] if npol == 2 else [])
                                K.prove(f'{part}[{sig}]', hy, eq_scalar(r.f[part].elem(idx), refs[part].elem(idx)), words=f'exactly the selected {part} samples in every polarisation')
                        bad = fresh_result(p, r, [a])
                        (K.fail if bad else K.ok)(f'fresh[{sig}]', '; '.join(bad) if bad else 'operand untouched; slice result is a fresh copy')
                # integer index and copy()
                def run_int(ex):
                    a = mk_obj(ex, cls, 'a', N, npol, noise, kind)
                    return a, ex.subscript(a, k)
                for p in K.paths(run_int, [N >= 1]):
                    sig = f'{cls},{npol}pol,noise={noise},int][{p.signature()}'
                    if p.kind == 'raise':
                        K.prove(f'oob[{sig}]', p.pc, z3.And(z3.Or(k >= N, k < -N), p.value == 'IndexError'), words='only an out-of-range integer index raises')
                        continue
                    a, r = p.value
                    kk = z3.If(k < 0, k + N, k)
                    K.prove(f'wf[{sig}]', p.pc, And_(wf(r, 1)), words='x[k] is a length-1 object of the same layout')
                    idx0 = (0,) if npol == 1 else (z3.Int('pol'), 0)
                    idxk = (kk,) if npol == 1 else (z3.Int('pol'), kk)
                    hy = list(p.pc) + ([z3.Int('pol') >= 0, z3.Int('pol') < 2] if npol == 2 else [])
                    if all(x is not False for x in wf(r, 1)) and r.f['signal'].ndim == a.f['signal'].ndim:
                        K.prove(f'value[{sig}]', hy, eq_scalar(total(r, idx0), total(a, idxk)), words='x[k] holds sample k (negative k from the end) of signal and noise')
                    if r.cls != cls or (cls == 'optical_signal' and conc(r.f.get('n_pol')) != npol):
                        K.fail(f'class[{sig}]', f'class / n_pol changed: {r.cls} {r.f.get("n_pol")}')

                def run_copy(ex):
                    a = mk_obj(ex, cls, 'a', N, npol, noise, kind)
                    return a, ex.call(ex.get_method(a, 'copy'), [], {})
                for p in K.paths(run_copy, [N >= 1, i >= 0, i < N]):
                    sig = f'{cls},{npol}pol,noise={noise},copy][{p.signature()}'
                    if p.kind != 'ret':
                        K.prove(f'noraise[{sig}]', p.pc, False, words='copy() never raises')
                        continue
                    a, r = p.value
                    idx = (i,) if npol == 1 else (z3.Int('pol'), i)
                    hy = list(p.pc) + ([z3.Int('pol') >= 0, z3.Int('pol') < 2] if npol == 2 else [])
                    K.prove(f'wf[{sig}]', p.pc, And_(wf(r, N)), words='copy satisfies the contract, same length')
                    if all(x is not False for x in wf(r, N)) and (r.f['noise'] is None) == (a.f['noise'] is None) and r.cls == cls:
                        K.prove(f'value[{sig}]', hy, z3.And(eq_scalar(r.f['signal'].elem(idx), a.f['signal'].elem(idx)), eq_scalar(total(r, idx), total(a, idx))), words='copy() holds the same signal and noise')
                    else:
                        K.fail(f'value[{sig}]', 'copy changed class or noise presence')
                    bad = fresh_result(p, r, [a])
                    (K.fail if bad else K.ok)(f'fresh[{sig}]', '; '.join(bad) if bad else 'copy shares no buffer with the original')


@clause('C01.bounded', min_obl=1)
def bounded(K):
    ntrees = 20000 if K.tier == 'thorough' else 1500
    seed = K.seed
    from . import C01_trees
    st, r = native(lambda: C01_trees.run(seed, ntrees), 3000)
    K.bounded('trees', st == 'ok' and r['nbad'] == 0, {'evaluations': r['n'] if st == 'ok' else 0, 'distinct_nontrivial': r['distinct'] if st == 'ok' else 0,
              'bound': f'{ntrees} random expression trees of depth <= 6; lengths 1,2,3,5,7,64,1021; int/float/complex; all noise patterns; list/tuple/str/ndarray/numpy-scalar right operands, list/tuple/str/scalar left operands',
              'samples': r.get('samples', []) if st == 'ok' else [], 'failures': r if st == 'ok' else [st, r]})


def frame_runs(K):
    N = z3.Int('N')
    out = []
    for cls in CLASSES:
        for meth in ('__add__', '__rsub__', '__mul__'):
            out.append((f'{cls}.{meth}', lambda ex, cls=cls, meth=meth: ex.call(ex.get_method(mk_obj(ex, cls, 'a', N, 1, True, 'complex'), meth), [mk_obj(ex, cls, 'b', N, 1, True, 'complex')], {}), [N >= 1], None))
    return out
