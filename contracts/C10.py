"""C10 - EDFA applies gain G to all of its input and adds ASE of the documented power.

Under contract (devices.py): EDFA, with optical_signal.__init__, __mul__, BPF and idb inlined.  np.random.randn is an
unconstrained array carrying its distribution tag (four independent standard-normal rows); the optional optical filter is the
uninterpreted linear operator of C11.  Bounded: measured ASE power (statistical).
"""
import z3
from pyvc.vc import clause, mval
from pyvc.values import *
from pyvc import opaque
from .common import *
from .C01 import wf, And_
from .C11 import Lspec

LEVEL = 'proof'
LEVEL_TEXT = ('Proof for all inputs, G, NF and grids: the real EDFA returns a two-polarisation signal; signal = sqrt(G)*input in the polarisations present (0 in an absent y); noise = sqrt(G)*input noise in '
              'the same polarisations plus an ASE term that is sqrt(P_ase/4)*(Z0 + jZ2, Z1 + jZ3) for the four independent standard-normal rows Z of one randn(4,N) draw, with '
              'P_ase = NF*h*f0*(G-1)*fs on the gv in force (total ASE power P_ase, split over four quadratures); hence OSNR_out <= OSNR_in; with BW the whole output passes the optical filter; '
              'non-optical inputs raise TypeError; real-valued input noise is accepted. The measured ASE power is a bounded six-sigma check.')
LEVEL_NOTE = 'np.random.randn trusted to deliver independent standard normals; optical filter uninterpreted (C11); floats as reals'
EXPLANATION = LEVEL_TEXT
BOUNDED_RULE = 'EDFA on 1/2-polarisation inputs with/without noise, G in {0,10,25,40} dB, NF in {3,5,10} dB, 2^16 samples: ASE power within six sigma, gain exact under a twin noise-free call with the same seed; distinct = distinct (layout, noise, G, NF)'

HPL = z3.RealVal(Fraction('6.62607015e-34'))


def native_edfa_check():
    import numpy as np
    from opticomlib.typing import gv, optical_signal as O
    from opticomlib.devices import EDFA
    rng = np.random.default_rng(0)
    gv(sps=8, R=10e9)
    N, bad = 256, []
    for shape in ((N,), (2, N)):
        s = (rng.normal(size=shape) + 1j * rng.normal(size=shape)) * 0.01
        for noise in (None, (rng.normal(size=shape) + 1j * rng.normal(size=shape)) * 0.001, rng.normal(size=shape) * 0.001):
            for G, NF in ((20.0, 5.0), (0.0, 3.0)):
                try:
                    np.random.seed(3)
                    y = EDFA(O(s, noise), G, NF)
                    np.random.seed(3)
                    y0 = EDFA(O(s), G, NF)              # twin call: the same ASE realisation, no input noise
                    g = 10 ** (G / 20)
                    exp_s = np.zeros((2, N), complex)
                    exp_s[:len(shape) and (2 if len(shape) == 2 else 1)] = g * s
                    ok = y.signal.shape == (2, N) and np.allclose(y.signal, exp_s)
                    ase = y0.noise
                    exp_n = np.zeros((2, N), complex)
                    if noise is not None:
                        exp_n[:(2 if len(shape) == 2 else 1)] = g * noise
                    ok = ok and y.noise.shape == (2, N) and np.allclose(y.noise - ase, exp_n, atol=1e-15)
                except Exception as e:
                    ok = False
                if not ok:
                    bad.append([shape, None if noise is None else str(noise.dtype), G])
    gv.clean()
    return not bad, bad


def rep(m):
    st, out = native(native_edfa_check, 120)
    return {'confirmed': st != 'ok' or not out[0], 'inputs': 'random fields N=256, 1/2 polarisations, no / complex / real input noise, (G,NF) in {(20,5),(0,3)}; ASE removed through a noise-free twin call under the same numpy seed',
            'observed': out}


def _mk(npol, noise_kind):
    @clause(f'C10.gain[{npol}pol,noise={noise_kind}]', min_obl=8)
    def f(K):
        N, i = z3.Ints('N i')
        G, NF, BW = z3.Reals('G NF BW')
        fe = fn(K, 'devices.EDFA')
        pre = [N >= 1, i >= 0, i < N, G >= 0, NF >= 3, BW > 0]
        for with_bw in (False, True):
            def run(ex):
                g = mk_gv(ex)
                x = mk_osig(ex, 'x', N, npol, noise_kind != 'none', kind='float' if noise_kind == 'allreal' else 'complex')
                if noise_kind == 'real':
                    nz = real_arr('x_nreal', [N] if npol == 1 else [2, N])
                    ex.param_provs[nz.prov] = 'x.noise'
                    x.f['noise'] = nz
                return g, x, ex.call_fn(fe, [x, G, NF], {'BW': BW} if with_bw else {})
            for p in K.paths(run, pre):
                sig = f'BW={with_bw}][{p.signature()}'
                if p.kind != 'ret':
                    K.prove(f'noraise[{sig}]', p.pc, False, replay=rep, words='EDFA accepts one/two-polarisation inputs with or without (real or complex) noise')
                    continue
                g, x, y = p.value
                ok_shape = y.cls == 'optical_signal' and conc(y.f.get('n_pol')) == 2 and isinstance(y.f['signal'], Arr) and y.f['signal'].ndim == 2 and conc(y.f['signal'].shape[0]) == 2
                K.prove(f'layout[{sig}]', p.pc, And_(wf(y, N)) if ok_shape else False, replay=rep, words='always a two-polarisation optical_signal of the input length')
                if not ok_shape or y.f['noise'] is None:
                    if ok_shape:
                        K.prove(f'ase_present[{sig}]', p.pc, False, replay=rep, words='the output always carries a noise component (ASE)')
                    continue
                draws = p.ex.__dict__.get('draws', [])
                if len(draws) != 1 or draws[0].ndim != 2 or conc(draws[0].shape[0]) != 4:
                    K.fail(f'ase.draw[{sig}]', f'expected one randn(4, N) draw, found {[d.shape for d in draws]}')
                    continue
                Z = draws[0]
                gs = uf('sqrt', uf('pow10', G / 10))                 # sqrt(G), G linear = 10^(G_dB/10)
                Pase = uf('pow10', NF / 10) * HPL * toreal(g.f['f0']) * (uf('pow10', G / 10) - 1) * toreal(g.f['fs'])
                sg_ase = uf('sqrt', Pase / 4)
                K.prove(f'ase.draw[{sig}]', p.pc, z3.And(tonum(Z.shape[1]) == N, toreal(Z.dist['mean']) == 0, toreal(Z.dist['std']) == 1),
                        words='one draw of four independent standard-normal rows of N samples')
                for r_ in range(2):
                    present = npol == 2 or r_ == 0
                    in_s = x.f['signal'].elem((i,) if npol == 1 else (r_, i)) if present else Cx(Fraction(0), Fraction(0))
                    in_n = (x.f['noise'].elem((i,) if npol == 1 else (r_, i)) if (present and x.f['noise'] is not None) else Cx(Fraction(0), Fraction(0)))
                    exp_s = s_mul(gs, in_s)
                    ase = Cx(sg_ase * toreal(Z.elem((r_, i))), sg_ase * toreal(Z.elem((2 + r_, i))))
                    exp_n = s_add(s_mul(gs, in_n), ase)
                    if not with_bw:
                        for nm, got, exp_ in (('signal', y.f['signal'].elem((r_, i)), exp_s), ('noise', y.f['noise'].elem((r_, i)), exp_n)):
                            for comp, pick in (('re', s_real), ('im', s_imag)):
                                K.prove_congruent(f'{nm}.{comp}[{sig},pol{r_}]', list(p.pc), toreal(pick(got)), toreal(pick(exp_)), replay=rep, positive=[Pase / 4] if nm == 'noise' else [],
                                                  words=('signal = sqrt(G)*input signal in the polarisations present, 0 in an absent y polarisation' if nm == 'signal' else
                                                         'noise = sqrt(G)*input noise (same polarisations) + ASE; ASE[p] = sqrt(P_ase/4)*(Z[p] + j Z[2+p]), P_ase = NF*h*f0*(G-1)*fs'))
                if with_bw:
                    # the whole output (signal and noise) is the optical filter applied to the unfiltered output
                    for nm in ('signal', 'noise'):
                        for r_ in range(2):
                            for comp, pick in (('re', s_real), ('im', s_imag)):
                                if comp == 'im' and y.f[nm].kind != 'complex':
                                    continue          # real-valued output: nothing to filter in the imaginary part
                                arr = Arr([N], (lambda ix, nm=nm, r_=r_, pick=pick: pick(y.f[nm].elem((r_, ix[0])))), 'float')
                                app = opaque.find_app(p.ex, arr)
                                okf = app is not None and app.op == 'L' and opaque.params_equal(p.ex, app.params, (4, BW / 2, g.f['fs'], 'low', 'mag'))
                                if not okf:
                                    K.prove(f'bw.{nm}.{comp}[{sig},pol{r_}]', p.pc, False, replay=rep, words='with BW the output is band-limited by the optical filter L[4, BW/2, fs]')
                                    continue
                                present = npol == 2 or r_ == 0
                                in_s = x.f['signal'].elem((i,) if npol == 1 else (r_, i)) if present else Cx(Fraction(0), Fraction(0))
                                in_n = (x.f['noise'].elem((i,) if npol == 1 else (r_, i)) if (present and x.f['noise'] is not None) else Cx(Fraction(0), Fraction(0)))
                                ase = Cx(sg_ase * toreal(Z.elem((r_, i))), sg_ase * toreal(Z.elem((2 + r_, i))))
                                exp_ = s_mul(gs, in_s) if nm == 'signal' else s_add(s_mul(gs, in_n), ase)
                                K.prove_congruent(f'bw.{nm}.{comp}[{sig},pol{r_}]', list(p.pc), toreal(app.inp.elem((i,))), toreal(pick(exp_)), replay=rep, positive=[Pase / 4] if nm == 'noise' else [],
                                                  words='with BW the whole amplified output (signal and noise incl. ASE) passes the optical filter L[4, BW/2, fs]')
                bad = purity_violations(p, y)
                (K.fail if bad else K.ok)(f'frame[{sig}]', '; '.join(bad) if bad else 'input untouched, fresh output')
    f.__name__ = f'gain_{npol}_{noise_kind}'
    return f


for _n in (1, 2):
    for _k in ('none', 'complex', 'real', 'allreal'):
        _f = _mk(_n, _k)
        globals()[_f.__name__] = _f


@clause('C10.osnr_type', min_obl=2)
def osnr_type(K):
    # OSNR lemma over the gain contracts: signal power scales by G, noise power by G plus a non-negative ASE power
    Ps, Pn, Gl, Pa = z3.Reals('Ps Pn Glin Pase')
    K.prove('osnr', [Ps >= 0, Pn > 0, Gl >= 1, Pa >= 0], (Gl * Ps) * Pn <= Ps * (Gl * Pn + Pa),
            words='OSNR_out = G Ps / (G Pn + P_ase) <= Ps / Pn = OSNR_in (signal and incoming noise see the same gain, ASE power is non-negative)')
    N = z3.Int('N')
    fe = fn(K, 'devices.EDFA')
    for p in K.paths(lambda ex: (mk_gv(ex), ex.call_fn(fe, [mk_esig(ex, 'e', N), 10, 5], {}))[1], [N >= 1]):
        (K.ok if p.kind == 'raise' and p.value == 'TypeError' else K.fail)(f'type[{p.signature()}]', f'non-optical input: {p.kind} {p.value}')


@clause('C10.bounded', min_obl=1)
def bounded(K):
    thorough = K.tier == 'thorough'
    seed = K.seed

    def work():
        import numpy as np
        from scipy.constants import h
        from opticomlib.typing import gv, optical_signal as O
        from opticomlib.devices import EDFA
        bad, n, seen = [], 0, set()
        gv(sps=8, R=10e9)
        N = 2 ** 16
        rng = np.random.default_rng(seed)
        for shape, real_field in (((N,), False), ((2, N), False), ((N,), True), ((2, N), True)):
            # real_field: the field (and its noise) stored as real arrays, e.g. a sine or a CW carrier built from np.ones
            s = (rng.normal(size=shape) + (0 if real_field else 1j * rng.normal(size=shape))) * 0.01
            for noise in (None, (rng.normal(size=shape) + (0 if real_field else 1j * rng.normal(size=shape))) * 1e-3):
                for G in ((0.0, 10.0, 25.0, 40.0) if thorough else (0.0, 20.0, 40.0)):
                    for NF in ((3.0, 5.0, 10.0) if thorough else (3.0, 6.0)):
                        np.random.seed(seed + 11)
                        y = EDFA(O(s, noise), G, NF)
                        np.random.seed(seed + 11)
                        y0 = EDFA(O(s), G, NF)
                        n += 1
                        seen.add((len(shape), real_field, noise is not None, G, NF))
                        g = 10 ** (G / 20)
                        ase = y0.noise
                        P = 10 ** (NF / 10) * h * gv.f0 * (10 ** (G / 10) - 1) * gv.fs
                        meas = float(np.mean(np.abs(ase) ** 2, axis=-1).sum())
                        ok = y.signal.shape == (2, N) and (P == 0 and meas == 0 or abs(meas - P) <= 6 * P / np.sqrt(2 * N) + 1e-12 * P)
                        if P > 0:        # circular: half of the ASE power in each quadrature
                            im_share = float(np.mean(ase.imag ** 2, axis=-1).sum()) / meas if meas > 0 else 0.0
                            ok = ok and abs(im_share - 0.5) <= 6 / np.sqrt(2 * N)
                        rows = 2 if len(shape) == 2 else 1
                        ok = ok and np.allclose(y.signal[:rows], g * s) and (rows == 2 or not y.signal[1].any())
                        resid = y.noise - ase
                        if noise is not None:
                            ok = ok and np.allclose(resid[:rows], g * noise, atol=1e-14) and (rows == 2 or np.abs(resid[1]).max() < 1e-14)
                            osnr_in = np.sum(np.abs(s) ** 2) / np.sum(np.abs(noise) ** 2)
                            osnr_out = np.sum(np.abs(y.signal) ** 2) / np.sum(np.abs(y.noise) ** 2)
                            ok = ok and osnr_out <= osnr_in * (1 + 1e-2)
                        if not ok:
                            bad.append({'pols': rows, 'real_valued_field': real_field, 'noise': noise is not None, 'G': G, 'NF': NF, 'ase_power': meas, 'expected': P})
        gv.clean()
        return {'n': n, 'distinct': len(seen), 'bad': bad[:6], 'nbad': len(bad)}
    st, r = native(work, 1800)
    K.bounded('ase_power', st == 'ok' and r['nbad'] == 0, {'evaluations': r['n'] if st == 'ok' else 0, 'distinct_nontrivial': r['distinct'] if st == 'ok' else 0,
              'bound': '2 layouts x complex/real-valued fields x noise on/off x G in {0,20,40} x NF in {3,6} (thorough: 4 x 3), 2^16 samples, six-sigma band on total ASE power and on the share of the imaginary quadrature', 'samples': [{'pols': 1, 'noise': True, 'G': 20, 'NF': 6}],
              'failures': r if st == 'ok' else [st, r]})


def frame_runs(K):
    N = z3.Int('N')
    G, NF = z3.Reals('G NF')
    fe = fn(K, 'devices.EDFA')
    return [(f'devices.EDFA[{npol}pol]', (lambda ex, npol=npol: (mk_gv(ex), ex.call_fn(fe, [mk_osig(ex, 'x', N, npol, True), G, NF], {}))[1]), [N >= 1, G >= 0, NF >= 3], None) for npol in (1, 2)]
