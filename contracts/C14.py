"""C14 - global grid stays consistent over any call history; devices are pure and seedable.

Under contract (typing.py): global_variables.__init__, __call__, clean  -> inductive invariant Inv(gv)
Frame (ghost provenance + effect log of the symbolic executor): see frame() below, list FRAME_FUNCS.
Bounded: seeded bit-for-bit reproducibility, write-protected argument buffers and gv snapshots on the real functions.
"""
import itertools
import z3
from pyvc.vc import clause, mval
from pyvc.values import *
from pyvc import reduce as red
from .common import *

LEVEL = 'proof'
LEVEL_TEXT = ('Proof by induction over call histories: Inv(gv) (fs = R*sps, sps integer, dt = 1/fs, f0 = c/wavelength, and with N set: |t| = |w| = N*sps, dw = 2*pi*fs/(N*sps)) is established by '
              '__init__ and clean() and preserved by __call__ for every presence pattern of (sps, R, fs, N, wavelength, custom keywords) from any state satisfying Inv - hence after any finite '
              'history. Frame conditions (no write to gv, no store into argument buffers, fresh outputs) are discharged on every explored path of the functions under contract through the '
              'executor\'s effect log and allocation provenance. Seeded reproducibility / aliasing of the remaining public functions is a bounded native check.')
LEVEL_NOTE = 'commensurate rates (fs/R integral where sps is derived) and positive rates are preconditions from the property; np.round modelled as a nearest-integer witness; frame of functions outside the executor\'s reach only bounded'
EXPLANATION = 'see LEVEL_TEXT'
BOUNDED_RULE = 'each public function called twice after np.random.seed(s) on write-protected inputs with gv snapshot; distinct = distinct (function, input layout) pairs'

PI_ = PI
CL = z3.RealVal(299792458)


def inv(o, ex=None):
    """Inv(gv) as list of (name, z3 Bool)"""
    f = o.f
    sps = f['sps']
    out = []
    spsz = tonum(sps)
    out.append(('sps_integer', z3.BoolVal(True) if z3.is_int(spsz) else z3.IsInt(spsz)))
    out.append(('fs=R*sps', toreal(f['fs']) == toreal(f['R']) * toreal(sps)))
    out.append(('dt=1/fs', toreal(f['dt']) * toreal(f['fs']) == 1))
    out.append(('f0=c/wavelength', toreal(f['f0']) * toreal(f['wavelength']) == CL))
    if f.get('N') is not None:
        NS = tonum(f['N']) * spsz
        t, w = f.get('t'), f.get('w')
        if not isinstance(t, Arr) or not isinstance(w, Arr) or f.get('dw') is None:
            out.append(('grid_present', z3.BoolVal(False)))
        else:
            out.append(('len(t)=N*sps', tonum(t.shape[0]) == NS))
            out.append(('len(w)=N*sps', tonum(w.shape[0]) == NS))
            out.append(('dw=2pi*fs/(N*sps)', toreal(f['dw']) * z3.ToReal(NS) == 2 * PI_ * toreal(f['fs'])))
    else:
        out.append(('no_grid_without_N', z3.BoolVal(f.get('t') is None and f.get('w') is None and f.get('dw') is None)))
    return out


def pre_state(ex, withN):
    sps0, N0 = z3.Ints('sps0 N0')
    R0, wl0 = z3.Reals('R0 wl0')
    o = mk_gv(ex, sps=sps0, R=R0, wavelength=wl0)
    ex.assume(z3.And(sps0 >= 1, R0 > 0, wl0 > 0))
    if withN:
        ex.assume(N0 >= 1)
        o.f.update(N=N0, t=real_arr('t0', [N0 * sps0]), w=real_arr('w0', [N0 * sps0]), dw=2 * PI_ * (R0 * z3.ToReal(sps0)) / z3.ToReal(N0 * sps0))
    o.f['alpha_custom'] = z3.Real('old_custom')
    return o


def native_history(calls):
    """replay a history of gv calls natively and evaluate Inv numerically"""
    import numpy as np
    from opticomlib.typing import gv
    import warnings
    warnings.simplefilter('ignore')
    gv.clean()
    for kw in calls:
        if kw == 'clean':
            gv.clean()
        else:
            gv(**kw)
    ok = abs(gv.fs - gv.R * gv.sps) <= 1e-9 * gv.fs and float(gv.sps).is_integer() and abs(gv.dt * gv.fs - 1) < 1e-12 and abs(gv.f0 * gv.wavelength - 299792458) < 1e-6
    detail = {'sps': gv.sps, 'R': gv.R, 'fs': gv.fs, 'N': gv.N}
    if gv.N is not None:
        detail.update(len_t=len(gv.t), len_w=len(gv.w), dw=gv.dw)
        ok = ok and len(gv.t) == gv.N * gv.sps and len(gv.w) == gv.N * gv.sps and abs(gv.dw - 2 * np.pi * gv.fs / (gv.N * gv.sps)) <= 1e-9 * gv.dw
    return ok, detail


@clause('C14.gv.init_clean', min_obl=8)
def init_clean(K):
    ps = K.paths(lambda ex: ex.instantiate('global_variables', [], {}), [])
    for p in ps:
        if p.kind != 'ret':
            K.fail(f'init[{p.signature()}]', f'__init__ {p.kind} {p.value}')
            continue
        for nm, c in inv(p.value):
            K.prove(f'init.{nm}[{p.signature()}]', p.pc, c, words='Inv established by __init__')
    for withN in (False, True):
        def run(ex):
            o = pre_state(ex, withN)
            o.f['beta_custom'] = 7
            ex.call(ex.get_method(o, 'clean'), [], {})
            return o
        ps = K.paths(run, [])
        for p in ps:
            sig = f'N={withN}][{p.signature()}'
            if p.kind != 'ret':
                K.fail(f'clean[{sig}]', f'clean() {p.kind} {p.value}')
                continue
            o = p.value
            for nm, c in inv(o):
                K.prove(f'clean.{nm}[{sig}]', p.pc, c, words='Inv established by clean()')
            d = o.f
            defaults = z3.And(tonum(d['sps']) == 16, toreal(d['R']) == 10 ** 9, toreal(d['wavelength']) == Fraction('1550e-9'))
            K.prove(f'clean.defaults[{sig}]', p.pc, defaults if d.get('N') is None else False, words='clean() restores sps=16, R=1e9, wavelength=1550e-9, N=None')
            custom = [k for k in d if k not in ('sps', 'R', 'fs', 'dt', 'wavelength', 'f0', 'N', 't', 'w', 'dw')]
            (K.fail if custom else K.ok)(f'clean.custom[{sig}]', f'custom attributes survive clean(): {custom}' if custom else 'every custom attribute is removed by clean()')


def _mk_call_clause(withN):
    @clause(f'C14.gv.call[preN={withN}]', min_obl=40)
    def f(K):
        a_sps, a_N = z3.Ints('a_sps a_N')
        a_R, a_fs, a_wl, cust = z3.Reals('a_R a_fs a_wl custom')
        for has in itertools.product((False, True), repeat=5):       # sps, R, fs, N, wavelength given?
            def run(ex):
                o = pre_state(ex, withN)
                kw = {}
                if has[0]:
                    kw['sps'] = a_sps
                if has[1]:
                    kw['R'] = a_R
                if has[2]:
                    kw['fs'] = a_fs
                if has[3]:
                    kw['N'] = a_N
                if has[4]:
                    kw['wavelength'] = a_wl
                kw['gamma_custom'] = cust
                ex.call(ex.get_method(o, '__call__'), [], kw)
                return o
            R0 = z3.Real('R0')
            pre = [a_sps >= 1, a_R > 0, a_fs > 0, a_N >= 1, a_wl > 0,
                   # commensurate rates: wherever sps is derived by rounding a ratio of rates, the ratio is a positive integer
                   z3.IsInt(a_fs / a_R), z3.IsInt(a_fs / R0), a_fs >= a_R, a_fs >= R0]
            ps = K.paths(run, pre)
            tag = ''.join('sRfNw'[j] if h else '-' for j, h in enumerate(has))

            def rep(m, has=has):
                first = {'sps': mval(m, z3.Int('sps0')), 'R': fval(mval(m, z3.Real('R0'))), 'wavelength': fval(mval(m, z3.Real('wl0')))}
                if withN:
                    first['N'] = mval(m, z3.Int('N0'))
                second = {}
                for j, (k, v) in enumerate((('sps', a_sps), ('R', a_R), ('fs', a_fs), ('N', a_N), ('wavelength', a_wl))):
                    if has[j]:
                        second[k] = fval(mval(m, v))
                if any(isinstance(v, int) and abs(v) > 10 ** 5 for v in list(first.values()) + list(second.values())):
                    return {'confirmed': False, 'note': 'model too large to replay'}
                st, r = native(lambda: native_history([first, second]))
                return {'confirmed': st == 'ok' and not r[0], 'inputs': {'history': [first, second]}, 'observed': r}
            small = [z3.Int('sps0') <= 8, z3.Int('N0') <= 4, a_sps <= 8, a_N <= 4, a_R <= 16, a_fs <= 64, R0 <= 16, R0 >= 1, a_R >= 1]
            for p in ps:
                sig = f'{tag}][{p.signature()}'
                if p.kind != 'ret':
                    K.prove(f'noraise[{sig}]', p.pc, False, replay=rep, small=small, words='gv(...) never raises for positive commensurate arguments')
                    continue
                o = p.value
                for nm, c in inv(o):
                    K.prove(f'{nm}[{sig}]', p.pc, c, replay=rep, small=small, words='Inv preserved by gv(...) from any state satisfying Inv')
                d = o.f
                ok = 'gamma_custom' in d and d['gamma_custom'] is cust and 'alpha_custom' in d
                (K.ok if ok else K.fail)(f'custom_persist[{sig}]', 'custom attributes (old and new) persist across gv(...)' if ok else 'custom attribute lost')
                if has[0]:
                    K.prove(f'takes_sps[{sig}]', p.pc, tonum(d['sps']) == a_sps, words='the values now in force are the ones passed')
                if has[3]:
                    K.prove(f'takes_N[{sig}]', p.pc, tonum(d['N']) == a_N, words='N passed is the N in force')
                if has[4]:
                    K.prove(f'takes_wavelength[{sig}]', p.pc, toreal(d['wavelength']) == a_wl, words='wavelength passed is in force')
        K.cover('cover.pre', [a_sps >= 1, a_R > 0, a_fs > 0, z3.IsInt(a_fs / a_R)])
    f.__name__ = f'call_{int(withN)}'
    return f


call_0 = _mk_call_clause(False)
call_1 = _mk_call_clause(True)


FRAME_MODULES = ['C04', 'C05', 'C15', 'C12', 'C06', 'C07', 'C09', 'C10', 'C11', 'C18', 'C13', 'C01', 'C02', 'C16', 'C08', 'C03']


def _mk_frame_clause(modname):
    import importlib, os
    if not os.path.exists(os.path.join(os.path.dirname(__file__), modname + '.py')):
        return None
    mod = importlib.import_module('contracts.' + modname)
    if not hasattr(mod, 'frame_runs'):
        return None

    @clause(f'C14.frame[{modname}]', min_obl=1)
    def f(K):
        for (name, run, pre, setup) in mod.frame_runs(K):
            ps = K.paths(run, pre, setup, allow_unsupported=True)
            unsup = [p for p in ps if p.kind == 'unsupported']
            if unsup:
                K.note(f'frame[{name}]: {len(unsup)} path(s) end in constructs outside the executor ({unsup[0].value[:80]}); covered by the bounded purity harness only')
            for p in ps:
                if p.kind == 'unsupported':
                    continue
                bad = purity_violations(p, p.value if p.kind == 'ret' else None)
                if bad:
                    K.fail(f'{name}[{p.signature()}]', '; '.join(bad), confirmed=False)
                else:
                    K.ok(f'{name}[{p.signature()}]', 'no write to gv, no store into an argument buffer, result does not alias arguments, no wall-clock dependence on this path')
    f.__name__ = f'frame_{modname}'
    return f


for _m in FRAME_MODULES:
    _f = _mk_frame_clause(_m)
    if _f is not None:
        globals()[f'frame_{_m}'] = _f


@clause('C14.bounded', min_obl=3)
def bounded(K):
    seed = K.seed
    nh = 300 if K.tier == 'thorough' else 60

    def work_hist():
        import random
        rng = random.Random(seed)
        bad, n = [], 0
        for _ in range(nh):
            hist = []
            for _ in range(rng.randint(1, 5)):
                if rng.random() < 0.15:
                    hist.append('clean')
                    continue
                kw = {}
                R = rng.choice([1e9, 2.5e9, 10e9])
                sps = rng.choice([2, 4, 8, 16, 33])
                if rng.random() < 0.6:
                    kw['sps'] = sps
                if rng.random() < 0.5:
                    kw['R'] = R
                if rng.random() < 0.3:
                    kw['fs'] = kw.get('R', 1e9) * kw.get('sps', rng.choice([4, 8, 16]))
                if rng.random() < 0.4:
                    kw['N'] = rng.choice([1, 7, 64])
                if rng.random() < 0.3:
                    kw['wavelength'] = rng.choice([1310e-9, 1550e-9])
                if rng.random() < 0.3:
                    kw['alpha'] = rng.random()
                if 'fs' in kw and 'R' not in kw and 'sps' not in kw:
                    kw['R'] = 1e9
                hist.append(kw)
            ok, det = native_history(hist)
            n += 1
            if not ok:
                bad.append({'history': hist, 'state': det})
        return {'n': n, 'bad': bad[:3], 'nbad': len(bad)}
    st, r = native(work_hist, 600)
    K.bounded('gv_histories', st == 'ok' and r['nbad'] == 0, {'evaluations': r['n'] if st == 'ok' else 0, 'distinct_nontrivial': r['n'] if st == 'ok' else 0,
              'bound': f'{nh} random histories of 1..5 gv()/clean() calls', 'samples': [[{'sps': 8, 'R': 1e9, 'N': 10}, {'sps': 16, 'R': 1e9}]], 'failures': r if st == 'ok' else st})
    from . import C14_purity
    st1, d1 = native(lambda: C14_purity.run(seed, K.tier, 'fresh'), 1800)
    st2, d2 = native(lambda: C14_purity.run(seed, K.tier, 'after_other_grid'), 1800)
    if st1 == 'ok' and st2 == 'ok':
        diff = sorted(k for k in d1['digests'] if d1['digests'][k] != d2['digests'].get(k))
        K.bounded('history_independent', not diff, {'evaluations': 2 * len(d1['digests']), 'distinct_nontrivial': len(d1['digests']),
                  'bound': 'every public function evaluated on grid B in a fresh process and after the same calls on another grid A (sps, R changed); results compared bit-for-bit under one numpy seed',
                  'samples': list(d1['digests'].items())[:3], 'failures': diff[:8]})
    else:
        K.bounded('history_independent', False, {'evaluations': 0, 'failures': [st1, st2, str(d1)[:300], str(d2)[:300]]})
    st, r = native(lambda: C14_purity.run(seed, K.tier), 1800)
    K.bounded('purity_seeded', st == 'ok' and r['nbad'] == 0, {'evaluations': r['n'] if st == 'ok' else 0, 'distinct_nontrivial': r['distinct'] if st == 'ok' else 0,
              'bound': 'every public device/codec/DSP function, 1- and 2-polarisation inputs with/without noise, 2 seeds, write-protected inputs, gv snapshot',
              'samples': r.get('samples', []) if st == 'ok' else [], 'failures': r if st == 'ok' else [st, r]})
