"""C15 - binary_sequence is a closed, immutable-by-operation algebra over {0,1}.

Under contract (typing.py): binary_sequence.__init__, __getitem__, __add__, __radd__, __invert__, len, ones, zeros,
electrical_signal.__gt__, __lt__ (with electrical_signal.__init__, abs, len inlined).
"""
import itertools, random
import z3
from pyvc.vc import clause, mval
from pyvc.values import *
from pyvc.interp import SliceV
from pyvc import reduce as red
from .common import *

LEVEL = 'proof'
LEVEL_TEXT = ('Proof for all lengths and contents: the real constructor, +, reflected +, ~, indexing/slicing, ones/zeros and the electrical_signal >/< comparisons are executed '
              'symbolically on arrays of symbolic length; acceptance iff every element is 0/1 and ndim <= 1, uint8 storage, concatenation/inversion/slicing laws at a Skolem '
              'index, operand buffers never written, results freshly allocated. String containers go through str2array and are bounded (exhaustive <= 12 bits).')
LEVEL_NOTE = 'numpy index maps (concatenate, basic slicing, astype, np.all with witness) are assumed contracts; strings are only covered by the bounded check'
EXPLANATION = 'see LEVEL_TEXT'
BOUNDED_RULE = 'all bit strings of length <= L (L=12 thorough, 9 quick) as str/list/tuple/ndarray/bool containers through ctor, +, radd, ~, slices; distinct = distinct bit strings'


def int_arr(name, shape):
    f = z3.Function(name, *([z3.IntSort()] * len(shape)), z3.IntSort())
    a = Arr(list(shape), lambda idx: f(*[tonum(i) for i in idx]), 'int')
    a.fun = f
    return a


def is01(v):
    v = tonum(v)
    return z3.Or(v == 0, v == 1)


def fresh_ok(K, p, name, out_arr):
    bad = frame_violations(p)
    if bad:
        K.fail(f'{name}.frame[{p.signature()}]', '; '.join(bad), confirmed=False)
    elif out_arr is not None and (out_arr.view or out_arr.prov in p.ex.param_provs):
        K.fail(f'{name}.fresh[{p.signature()}]', 'result shares the buffer of an operand', confirmed=False)
    else:
        K.ok(f'{name}.fresh[{p.signature()}]', 'no store into an operand buffer; result array freshly allocated')


def native_seq_check(kind, a, b=None, sl=None):
    """concrete oracle for replays: returns (ok, observed)"""
    import numpy as np
    from opticomlib.typing import binary_sequence
    A = binary_sequence(np.array(a, dtype=np.uint8))
    if kind == 'concat':
        r = A + np.array(b)
        return list(map(int, r.data)) == list(a) + list(b), list(map(int, r.data))
    if kind == 'rconcat':
        r = np.array(b).tolist() + A
        return list(map(int, r.data)) == list(b) + list(a), list(map(int, r.data))
    if kind == 'invert':
        r = ~A
        return list(map(int, r.data)) == [1 - x for x in a] and list(map(int, (~r).data)) == list(a), list(map(int, r.data))
    if kind == 'slice':
        r = A[sl]
        e = np.array(a)[sl]
        e = [int(e)] if np.ndim(e) == 0 else list(map(int, e))
        return list(map(int, r.data)) == e, list(map(int, r.data))
    if kind == 'count':
        return int(A.ones()) + int(A.zeros()) == len(a) and int((~A).ones()) == int(A.zeros()), [int(A.ones()), int(A.zeros())]


def model_bits(m, arr, n):
    nv = mval(m, n)
    if not isinstance(nv, int) or nv > 64 or nv < 0:
        return None
    return [mval(m, tonum(arr.elem((z3.IntVal(i),)))) for i in range(nv)]


@clause('C15.ctor', min_obl=10)
def ctor(K):
    n, i = z3.Ints('n i')
    # (a) 1-D integer array with arbitrary integer elements
    def run(ex):
        a = int_arr('d', [n])
        ex.param_provs[a.prov] = 'data'
        return a, ex.instantiate('binary_sequence', [a], {})
    ps = K.paths(run, [n >= 0, i >= 0, i < n])
    kinds = set()
    for p in ps:
        sig = p.signature()
        if p.kind == 'raise':
            kinds.add('raise')
            a = None
            # raised => some element is not 0/1: the witness of np.all is on the path condition
            K.prove(f'int1d.reject[{sig}]', list(p.pc) + red.instances(p.ex, [], [i]), p.value == 'ValueError', words='rejection is a ValueError')
            # completeness: not all elements binary (otherwise this path would be infeasible)
            f = z3.Function('d', z3.IntSort(), z3.IntSort())
            w = [t for t in p.ex.index_terms]
            K.prove(f'int1d.reject_only_nonbinary[{sig}]', list(p.pc), z3.Or(*[z3.And(t >= 0, t < n, z3.Not(is01(f(t)))) for t in w]) if w else z3.BoolVal(False),
                    words='a 1-D array is rejected only if it has a non-binary element (the witness of np.all on the rejecting path)')
            continue
        kinds.add('ret')
        a, o = p.value
        d = o.f['data']
        hy = list(p.pc) + red.instances(p.ex, [], [i])
        K.prove(f'int1d.accept_only_binary[{sig}]', hy, is01(a.elem((i,))), words='accepted => every input element is 0 or 1')
        K.prove(f'int1d.value[{sig}]', hy, z3.And(tonum(d.shape[0]) == n, tonum(d.elem((i,))) == tonum(a.elem((i,)))), words='stored data equal the input values, same length')
        if d.ndim == 1 and d.np_dtype == 'uint8':
            K.ok(f'int1d.dtype[{sig}]', 'stored data is a 1-D uint8 array')
        else:
            K.fail(f'int1d.dtype[{sig}]', f'stored data ndim={d.ndim} dtype={d.np_dtype}')
        fresh_ok(K, p, 'int1d', d)
    if kinds != {'raise', 'ret'}:
        K.undecided('int1d.paths', f'expected accepting and rejecting paths, got {kinds}')
    K.cover('cover.int1d', [n >= 1])
    # (b) 2-D input -> ValueError
    m_ = z3.Int('m')
    ps = K.paths(lambda ex: ex.instantiate('binary_sequence', [Arr([m_, n], lambda idx: z3.If(bool_fun('B2')(tonum(idx[0]) * n + tonum(idx[1])), 1, 0), 'int')], {}), [n >= 1, m_ >= 1])
    for p in ps:
        if p.kind == 'raise' and p.value == 'ValueError':
            K.ok(f'2d.reject[{p.signature()}]', '2-D data is rejected with ValueError')
        else:
            K.fail(f'2d.reject[{p.signature()}]', f'2-D 0/1 data: {p.kind} {p.value}')
    # (c) scalars
    b = z3.Int('b')
    ps = K.paths(lambda ex: ex.instantiate('binary_sequence', [b], {}), [])
    for p in ps:
        sig = p.signature()
        if p.kind == 'raise':
            K.prove(f'scalar.reject[{sig}]', p.pc, z3.And(z3.Not(is01(b)), p.value == 'ValueError'), words='a scalar is rejected only if it is not 0/1')
        else:
            d = p.value.f['data']
            K.prove(f'scalar.accept[{sig}]', p.pc, z3.And(is01(b), tonum(d.shape[0]) == 1, tonum(d.elem((0,))) == b) if d.ndim == 1 else False, words='scalar 0/1 -> length-1 sequence')
    # (d) concrete containers: lists / tuples / bools / floats
    for val, ok in (([1, 0, 1, 1], True), ((0, 1), True), ([True, False], True), ([Fraction(1), Fraction(0)], True), ([1, 2, 0], False), ([Fraction(1, 2)], False), ([[1, 0], [0, 1]], False), ([], True)):
        ps = K.paths(lambda ex: ex.instantiate('binary_sequence', [val], {}), [])
        for p in ps:
            nm = f'container[{val!r}][{p.signature()}]'
            if ok and p.kind == 'ret':
                d = p.value.f['data']
                flat = [int(x) for x in val]
                good = d.ndim == 1 and d.np_dtype == 'uint8' and conc(d.shape[0]) == len(flat) and all(conc(s_int(d.elem((j,)), p.ex)) == flat[j] for j in range(len(flat)))
                (K.ok if good else K.fail)(nm, 'container of 0/1 values accepted with equal data' if good else 'wrong stored data')
            elif (not ok) and p.kind == 'raise' and p.value in ('ValueError', 'TypeError'):
                K.ok(nm, 'rejected with ValueError/TypeError')
            else:
                K.fail(nm, f'{p.kind} {p.value}')


@clause('C15.concat', min_obl=10)
def concat(K):
    n, m_, i = z3.Ints('n m i')
    pre = [n >= 0, m_ >= 0, i >= 0, i < n + m_]
    for side in ('add', 'radd'):
        for okind in ('binseq', 'ndarray'):
            def run(ex):
                a = mk_binseq(ex, 'a', n)
                if okind == 'binseq':
                    b = mk_binseq(ex, 'b', m_)
                    barr = b.f['data']
                else:
                    b = barr = int_arr('bo', [m_])
                    ex.param_provs[barr.prov] = 'other'
                meth = ex.get_method(a, '__add__' if side == 'add' else '__radd__')
                return a.f['data'], barr, ex.call(meth, [b], {})
            ps = K.paths(run, pre)

            def rep(mm, side=side):
                def r(m):
                    av = model_bits(m, bits_arr('a', n), n)
                    bv = model_bits(m, (bits_arr('b', m_) if okind == 'binseq' else int_arr('bo', [m_])), m_)
                    if av is None or bv is None:
                        return {'confirmed': False, 'note': 'model too large'}
                    st, out = native(lambda: native_seq_check('concat' if side == 'add' else 'rconcat', av, bv))
                    return {'confirmed': st != 'ok' or not out[0], 'inputs': {'a': av, 'b': bv}, 'observed': out}
                return r
            small = [n <= 4, m_ <= 4]
            for p in ps:
                sig = f'{side},{okind}][{p.signature()}'
                if p.kind == 'raise':
                    if okind == 'binseq':
                        K.prove(f'noraise[{sig}]', p.pc, False, replay=rep(0), small=small, words='concatenating two valid sequences never raises')
                    else:
                        bo = int_arr('bo', [m_])
                        T = [t - sh if not (isinstance(sh, int) and sh == 0) else t for t in p.ex.index_terms for sh in p.ex.index_shifts]
                        nonbin = z3.Or(*[z3.And(t >= 0, t < m_, z3.Not(is01(bo.elem((t,))))) for t in T]) if T else z3.BoolVal(False)
                        K.prove(f'reject[{sig}]', list(p.pc), z3.And(nonbin, p.value == 'ValueError'),
                                words='an ndarray operand is rejected only when it has a non-binary element (witness on the path), and with ValueError')
                    continue
                a, b, o = p.value
                d = o.f['data']
                hy = list(p.pc) + red.instances(p.ex, [], [i, i - n, i - m_])
                first, second = (a, b) if side == 'add' else (b, a)
                n1 = tonum(first.shape[0])
                K.prove(f'len[{sig}]', hy, tonum(d.shape[0]) == n + m_, replay=rep(0), small=small, words='len(a+b) = len(a) + len(b)')
                K.prove(f'prefix[{sig}]', hy + [i < n1], tonum(d.elem((i,))) == tonum(first.elem((i,))), replay=rep(0), small=small, words='(x+y)[:len(x)] == x')
                K.prove(f'suffix[{sig}]', hy + [i >= n1], tonum(d.elem((i,))) == tonum(second.elem((i - n1,))), replay=rep(0), small=small, words='(x+y)[len(x):] == y')
                K.prove(f'valid[{sig}]', hy, is01(d.elem((i,))) if d.np_dtype == 'uint8' and d.ndim == 1 else False, words='result is a valid 1-D uint8 0/1 sequence')
                fresh_ok(K, p, f'fresh[{side},{okind}]', d)
    # other operand types
    for other, exp in ((5, 'TypeError'), (None, 'TypeError'), (Fraction(1, 2), 'TypeError'), ([1, 0, 2], 'ValueError'), ([[1, 0]], 'ValueError'), ([1, 1, 0], None), ((0,), None)):
        for side in ('__add__', '__radd__'):
            ps = K.paths(lambda ex: ex.call(ex.get_method(mk_binseq(ex, 'a', n), side), [other], {}), [n >= 0])
            for p in ps:
                nm = f'operand[{other!r},{side}][{p.signature()}]'
                if exp is None:
                    good = p.kind == 'ret' and p.ex.entails(tonum(p.value.f['data'].shape[0]) == n + len(other))
                else:
                    good = p.kind == 'raise' and p.value == exp
                (K.ok if good else K.fail)(nm, f'operand {other!r}: expected {exp or "accepted"}; got {p.kind} {p.value if p.kind == "raise" else ""}')


@clause('C15.invert_count', min_obl=6)
def invert_count(K):
    n, i = z3.Ints('n i')

    def rep(kind):
        def r(m):
            av = model_bits(m, bits_arr('a', n), n)
            if av is None:
                return {'confirmed': False}
            st, out = native(lambda: native_seq_check(kind, av))
            return {'confirmed': st != 'ok' or not out[0], 'inputs': {'a': av}, 'observed': out}
        return r

    def run(ex):
        a = mk_binseq(ex, 'a', n)
        na = ex.call(ex.get_method(a, '__invert__'), [], {})
        nna = ex.call(ex.get_method(na, '__invert__'), [], {})
        ones, zeros, ln = (ex.call(ex.get_method(a, f), [], {}) for f in ('ones', 'zeros', 'len'))
        ones_n = ex.call(ex.get_method(na, 'ones'), [], {})
        return a, na, nna, ones, zeros, ln, ones_n
    ps = K.paths(run, [n >= 0, i >= 0, i < n])
    small = [n <= 5]
    for p in ps:
        sig = p.signature()
        if p.kind != 'ret':
            K.prove(f'noraise[{sig}]', p.pc, False, replay=rep('invert'), small=small, words='~ and the counters never raise on a valid sequence')
            continue
        a, na, nna, ones, zeros, ln, ones_n = p.value
        A, NA, NNA = a.f['data'], na.f['data'], nna.f['data']
        hy = list(p.pc) + red.instances(p.ex, [], [i])
        K.prove(f'invert.value[{sig}]', hy, z3.And(tonum(NA.shape[0]) == n, tonum(NA.elem((i,))) == 1 - tonum(A.elem((i,)))), replay=rep('invert'), small=small, words='(~a)[i] = 1 - a[i], same length')
        K.prove(f'invert.involution[{sig}]', hy, z3.And(tonum(NNA.shape[0]) == n, tonum(NNA.elem((i,))) == tonum(A.elem((i,)))), replay=rep('invert'), small=small, words='~~a == a')
        K.prove(f'invert.valid[{sig}]', hy, is01(NA.elem((i,))) if NA.np_dtype == 'uint8' else False, words='~a is a valid uint8 sequence')
        K.prove(f'count.total[{sig}]', hy, tonum(ones) + tonum(zeros) == tonum(ln), replay=rep('count'), small=small, words='ones() + zeros() == len()')
        K.prove(f'count.len[{sig}]', hy, tonum(ln) == n, words='len() is the number of stored bits')
        lem = red.sum_complement_lemmas(p.ex)
        K.prove(f'count.complement[{sig}]', hy + lem, tonum(ones_n) == tonum(zeros), replay=rep('count'), small=small,
                words='ones(~a) == zeros(a)   (sum linearity: bodies add up to 1 element-wise => sums add up to n)')
        fresh_ok(K, p, 'invert', NA)


@clause('C15.slice', min_obl=8)
def slicing(K):
    n, i, lo, hi, st, k = z3.Ints('n i lo hi st k')

    def rep_sl(mk):
        def r(m):
            av = model_bits(m, bits_arr('a', n), n)
            if av is None:
                return {'confirmed': False}
            sl = mk(m)
            st_, out = native(lambda: native_seq_check('slice', av, sl=sl))
            return {'confirmed': st_ != 'ok' or not out[0], 'inputs': {'a': av, 'slice': str(sl)}, 'observed': out}
        return r
    small = [n <= 6, lo >= -8, lo <= 8, hi >= -8, hi <= 8, st <= 4, k >= -8, k <= 8]
    forms = {
        'lo:hi:st': (SliceV(lo, hi, st), [st >= 1], lambda m: slice(mval(m, lo), mval(m, hi), mval(m, st))),
        'lo:': (SliceV(lo, None, None), [], lambda m: slice(mval(m, lo), None)),
        ':hi': (SliceV(None, hi, None), [], lambda m: slice(None, mval(m, hi))),
        '::st': (SliceV(None, None, st), [st >= 1], lambda m: slice(None, None, mval(m, st))),
        ':': (SliceV(None, None, None), [], lambda m: slice(None)),
    }
    for nm, (sl, pre, mk) in forms.items():
        def run(ex):
            a = mk_binseq(ex, 'a', n)
            ref = arrays.getitem(ex, a.f['data'], sl)          # numpy's basic slicing of the stored array (assumed contract)
            return a, ref, ex.subscript(a, sl)
        ps = K.paths(run, [n >= 0, i >= 0] + pre)
        for p in ps:
            sig = f'{nm}][{p.signature()}'
            if p.kind != 'ret':
                K.prove(f'noraise[{sig}]', p.pc, False, replay=rep_sl(mk), small=small, words='slicing never raises')
                continue
            a, ref, o = p.value
            d = o.f['data']
            hy = list(p.pc) + red.instances(p.ex, [], [i]) + [i < tonum(ref.shape[0])]
            K.prove(f'value[{sig}]', hy, z3.And(tonum(d.shape[0]) == tonum(ref.shape[0]), tonum(d.elem((i,))) == tonum(ref.elem((i,)))), replay=rep_sl(mk), small=small,
                    words='a[slice] holds exactly the bits selected by the slice')
            K.prove(f'valid[{sig}]', hy, is01(d.elem((i,))) if d.np_dtype == 'uint8' and d.ndim == 1 else False, words='valid uint8 sequence')
            fresh_ok(K, p, f'slice[{nm}]', d)
    # integer index (negative included)
    def run(ex):
        a = mk_binseq(ex, 'a', n)
        return a, ex.subscript(a, k)
    ps = K.paths(run, [n >= 1])
    for p in ps:
        sig = p.signature()
        if p.kind == 'raise':
            K.prove(f'int.oob[{sig}]', p.pc, z3.And(z3.Or(k >= n, k < -n), p.value == 'IndexError'), words='only an out-of-range integer index raises (IndexError)')
            continue
        a, o = p.value
        d = o.f['data']
        kk = z3.If(k < 0, k + n, k)
        K.prove(f'int.value[{sig}]', p.pc, z3.And(tonum(d.shape[0]) == 1, tonum(d.elem((0,))) == tonum(a.f['data'].elem((kk,)))) if d.ndim == 1 else False,
                replay=rep_sl(lambda m: mval(m, k)), small=small, words='a[k] is the length-1 sequence holding bit k (negative k counts from the end)')


@clause('C15.cmp', min_obl=8)
def cmp_ops(K):
    n, i = z3.Ints('n i')
    thr = z3.Real('thr')
    for op, meth in (('gt', '__gt__'), ('lt', '__lt__')):
        for noise in (False, True):
            for kind in ('float', 'complex', 'int'):
                for tk in ('scalar', 'array', 'esig'):
                    def run(ex):
                        x = mk_esig(ex, 'x', n, noise=noise, kind=kind)
                        if tk == 'scalar':
                            t = thr
                            tv = lambda j: thr
                        elif tk == 'array':
                            t = real_arr('t', [n])
                            ex.param_provs[t.prov] = 'threshold'
                            tv = lambda j: t.elem((j,))
                        else:
                            t = mk_esig(ex, 't', n, noise=False, kind='float')
                            tv = lambda j: t.f['signal'].elem((j,))
                        return x, tv, ex.call(ex.get_method(x, meth), [t], {})
                    ps = K.paths(run, [n >= 1, i >= 0, i < n])
                    for p in ps:
                        sig = f'{op},noise={noise},{kind},{tk}][{p.signature()}'
                        if p.kind != 'ret':
                            K.prove(f'noraise[{sig}]', p.pc, False, words='comparison with a same-length / scalar threshold never raises')
                            continue
                        x, tv, o = p.value
                        d = o.f['data']
                        hy = list(p.pc) + red.instances(p.ex, [], [i])
                        K.prove(f'valid[{sig}]', hy, z3.And(tonum(d.shape[0]) == n, is01(d.elem((i,)))) if d.ndim == 1 and d.np_dtype == 'uint8' else False,
                                words='x > thr is a valid binary_sequence of the same length')
                        if kind in ('float', 'int'):
                            tot = toreal(x.f['signal'].elem((i,)))
                            if noise:
                                tot = tot + toreal(x.f['noise'].elem((i,)))
                            t_i = toreal(tv(i))
                            plain = (tot > t_i) if op == 'gt' else (tot < t_i)
                            K.prove(f'plain[{sig}]', hy + [tot >= 0, t_i >= 0], (tonum(d.elem((i,))) == 1) == plain,
                                    words='for non-negative real signal+noise and threshold the result equals the element-wise comparison')
                        fresh_ok(K, p, f'cmp[{op},{noise},{kind},{tk}]', d)
    # length mismatch
    m_ = z3.Int('m')
    ps = K.paths(lambda ex: ex.call(ex.get_method(mk_esig(ex, 'x', n), '__gt__'), [mk_esig(ex, 't', m_)], {}), [n >= 1, m_ >= 2, m_ != n])
    for p in ps:
        (K.ok if p.kind == 'raise' and p.value == 'ValueError' else K.fail)(f'mismatch[{p.signature()}]', f'different lengths: {p.kind} {p.value}')


@clause('C15.bounded', min_obl=1)
def bounded(K):
    L = 12 if K.tier == 'thorough' else 9

    def work():
        import numpy as np, itertools
        from opticomlib.typing import binary_sequence
        bad, n = [], 0
        for ln in range(1, L + 1):
            for v in range(2 ** ln):
                s = format(v, f'0{ln}b')
                bits = [int(c) for c in s]
                forms = [s, ','.join(s), ' '.join(s), bits, tuple(bits), np.array(bits), [bool(b) for b in bits], np.array(bits, dtype=float)]
                for f in forms:
                    n += 1
                    o = binary_sequence(f)
                    if o.data.dtype != np.uint8 or o.data.ndim != 1 or list(map(int, o.data)) != bits:
                        bad.append({'form': repr(f)[:60], 'got': str(o.data)})
                a = binary_sequence(bits)
                h = ln // 2
                for f in (s[h:], bits[h:], tuple(bits[h:]), np.array(bits[h:])):
                    n += 2
                    if len(f) == 0 and isinstance(f, str):
                        continue
                    x = binary_sequence(bits[:h]) + f if h else None
                    if x is not None and list(map(int, x.data)) != bits:
                        bad.append({'op': 'add', 'form': repr(f)[:40]})
                    y = f + binary_sequence(bits[:h]) if h and not isinstance(f, np.ndarray) else None
                    if y is not None and list(map(int, y.data)) != bits[h:] + bits[:h]:
                        bad.append({'op': 'radd', 'form': repr(f)[:40]})
                if list(map(int, (~~a).data)) != bits or int(a.ones()) + int(a.zeros()) != ln or int((~a).ones()) != int(a.zeros()):
                    bad.append({'op': 'invert/count', 'bits': s})
        for f in ('012', '1 2', [2], [[0, 1], [1, 0]], 'a', [0.5], 3):
            n += 1
            try:
                binary_sequence(f)
                bad.append({'form': repr(f), 'expected': 'ValueError/TypeError'})
            except (ValueError, TypeError):
                pass
        return {'n': n, 'bad': bad[:5], 'nbad': len(bad)}
    st, r = native(work, 1200)
    ok = st == 'ok' and r['nbad'] == 0
    K.bounded('containers', ok, {'evaluations': r['n'] if st == 'ok' else 0, 'distinct_nontrivial': 2 ** (L + 1) - 2, 'bound': f'all bit strings of length 1..{L} in 8 container/textual forms',
                                 'samples': ['0110 as str / "0,1,1,0" / "0 1 1 0" / list / tuple / ndarray / bools / float array'], 'failures': r if st == 'ok' else st})


def frame_runs(K):
    n, m_, lo, hi = z3.Ints('n m lo hi')
    out = []
    out.append(('binary_sequence.__add__', lambda ex: ex.call(ex.get_method(mk_binseq(ex, 'a', n), '__add__'), [mk_binseq(ex, 'b', m_)], {}), [n >= 0, m_ >= 0], None))
    out.append(('binary_sequence.__radd__', lambda ex: ex.call(ex.get_method(mk_binseq(ex, 'a', n), '__radd__'), [mk_binseq(ex, 'b', m_)], {}), [n >= 0, m_ >= 0], None))
    out.append(('binary_sequence.__invert__', lambda ex: ex.call(ex.get_method(mk_binseq(ex, 'a', n), '__invert__'), [], {}), [n >= 0], None))
    out.append(('binary_sequence.__getitem__', lambda ex: ex.subscript(mk_binseq(ex, 'a', n), SliceV(lo, hi, None)), [n >= 0], None))
    for meth in ('__gt__', '__lt__'):
        out.append((f'electrical_signal.{meth}', lambda ex, meth=meth: ex.call(ex.get_method(mk_esig(ex, 'x', n, noise=True), meth), [mk_esig(ex, 't', n)], {}), [n >= 1], None))
    return out
