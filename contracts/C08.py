"""C08 - nonlinear FIBER conserves energy up to loss and converges to the NLSE solution.

Under contract (devices.py): FIBER with gamma > 0 - the adaptive split-step loop through an inductive invariant with the ghost
distance z = x_length - h ("distance already applied"):   for every polarisation p,  sum|A_p|^2 = sum|A0_p|^2 * exp(-alpha' z).
The new step size computed in each iteration is left completely unconstrained (havoc), so the energy law is proved for EVERY
sequence of step sizes, "whatever phi_max is".  The dispersion-free branch is proved equal to the lossy SPM closed form.
Bounded: convergence to an independent fixed-step NLSE reference, finiteness, one- vs two-polarisation equivalence.
"""
import z3
from pyvc.vc import clause, mval
from pyvc.values import *
from pyvc.loops import LoopSpec
from pyvc import opaque
from pyvc import reduce as red, reduce as red
from .common import *
from .C01 import wf, And_

LEVEL = 'other'
LEVEL_TEXT = ('Invariant proved, convergence bounded: for every field, alpha >= 0, beta2, beta3, gamma > 0 and every sequence of step sizes the real split-step loop preserves '
              'sum|A_p|^2 = sum|A0_p|^2*exp(-alpha\' z) per polarisation (loop invariant with ghost distance; unit-modulus nonlinear factors, Parseval, |exp(D h)|^2 = exp(-alpha\' h)), hence the output '
              'energy is the input energy times exp(-alpha\' L) whatever phi_max is; the output has the input\'s shape; without dispersion the output equals in*exp(-alpha\'L/2)*exp(j*gamma*|in|^2*L_eff). '
              'Convergence to the nonlinear Schroedinger solution with error O(phi_max), finiteness in floating point and the one-/two-polarisation equivalence are bounded checks against an independent '
              'fixed-step reference - no contract within reach proves a rate of convergence.')
LEVEL_NOTE = 'fft/ifft axioms (inverse, Parseval), exp/cos/sin axioms; exact reals (finiteness in IEEE arithmetic only bounded); alpha\' = alpha/4.343 (see C07.power.constant for the distance to 10^(-alpha L/10))'
EXPLANATION = LEVEL_TEXT
BOUNDED_RULE = ('pulse trains and random fields (incl. leading zero samples), peak power <= 0.5 W, gamma*P*L <= 10 rad, phi_max in {0.1, 0.02, 0.005}: relative error vs an independent fixed-step NLSE reference '
                'decreasing and <= C*phi_max with C taken from the coarsest run (x2); 1-pol vs 2-pol-with-empty-y; every call under a 60 s limit; distinct = distinct (field, parameters)')


def row(a, npol, r):
    return a if npol == 1 else Arr([a.shape[1]], lambda ix: a.elem((r, ix[0])), a.kind)


def abs2arr(a):
    return Arr(a.shape, lambda ix: toreal(opaque._abs2(a.elem(ix))), 'float')


def step_facts(ex, alpha_p, hs):
    """axiom instances for the split steps on this path: Parseval for every fft/ifft application and, for each ifft application,
    |exp(D h) X|^2 = exp(-alpha' h) |X|^2 summed (checked element-wise by the solver before it is emitted)"""
    apps = list(ex.__dict__.get('apps', []))
    facts = opaque.parseval_facts(ex, apps)
    ffts = [a for a in apps if a.op == 'fft']
    for a in apps:
        if a.op != 'ifft':
            continue
        W2 = abs2arr(a.inp)
        done = False
        for f in ffts:
            for h in hs:
                lem = red.scale_lemma(ex, W2, abs2arr(f.out), uf('exp', -toreal(alpha_p) * toreal(h)))
                if lem is not None:
                    facts.append(lem)
                    done = True
                    break
            if done:
                break
    return facts


def setup_loop(ex, npol, holder):
    ex.fast_ident = True        # identification attempts that numeric sampling contradicts get a short solver budget (verdicts stay the solver's)
    def havoc(ex_, env, ghost):
        A = env['A']
        k = next(ex_.fresh)
        fr = z3.Function(f'A_re!{k}', *([z3.IntSort()] * A.ndim), z3.RealSort())
        fi = z3.Function(f'A_im!{k}', *([z3.IntSort()] * A.ndim), z3.RealSort())
        env['A'] = Arr(list(A.shape), lambda ix: Cx(fr(*[tonum(q) for q in ix]), fi(*[tonum(q) for q in ix])), 'complex')
        env['h'] = z3.Real(f'h!{k}')
        env['x_length'] = z3.Real(f'x_length!{k}')
        holder['h_loop'] = env['h']
        holder['xl_loop'] = env['x_length']
        holder['phase'] = 'head'

    def inv(ex_, env, ghost):
        for nm in ('A', 'h', 'x_length', 'alpha', 'input'):
            if nm not in env:
                raise Unsupported(f'FIBER loop invariant names the local `{nm}`, which no longer exists')
        A, h, xl, al = env['A'], env['h'], env['x_length'], env['alpha']
        A0 = env['input'].f['signal']
        if holder.get('phase') == 'head':
            holder['phase'] = 'body'            # next evaluation is the preservation goal: supply the axiom instances of this iteration
        elif holder.get('phase') == 'body':
            for f in step_facts(ex_, al, [holder['h_loop']]):
                ex_.assume(f)
            # instances of exp(a)*exp(b) = exp(a+b) for the distance already covered and this step, also multiplied by the input energies
            # (valid for all reals; they spare the solver the search for the product)
            e = lambda t: uf('exp', -toreal(al) * t)
            h0, x0 = toreal(holder['h_loop']), toreal(holder['xl_loop'])
            ex_.assume(e(x0 - h0) * e(h0) == e(x0))
            for r in range(npol):
                E0 = toreal(opaque.sumsq(ex_, row(A0, npol, r)))
                ex_.assume(E0 * e(x0 - h0) * e(h0) == E0 * e(x0))
        z = toreal(xl) - toreal(h)
        conj = []
        for r in range(npol):
            conj.append(toreal(opaque.sumsq(ex_, row(A, npol, r))) == toreal(opaque.sumsq(ex_, row(A0, npol, r))) * uf('exp', -toreal(al) * z))
        conj.append(z3.BoolVal(isinstance(A, Arr) and A.ndim == A0.ndim))
        return conj, []
    ex.loopspecs[('devices.FIBER', 0)] = LoopSpec('C08.energy.loop', havoc, inv)


def native_fiber(s, L, timeout=60, **kw):
    import numpy as np, signal as sig_
    from opticomlib.typing import optical_signal as O
    from opticomlib.devices import FIBER

    def alarm(*a):
        raise TimeoutError()
    sig_.signal(sig_.SIGALRM, alarm)
    sig_.alarm(timeout)
    try:
        return FIBER(O(s), L, **kw).signal
    finally:
        sig_.alarm(0)


def native_energy_check():
    import numpy as np
    from opticomlib.typing import gv
    gv(sps=8, R=10e9)
    rng = np.random.default_rng(0)
    bad = []
    N = 256
    t = np.arange(N)
    pulses = np.sqrt(0.3) * np.exp(-((t - 128) / 12.0) ** 2)
    for shape_kind in ('1pol', '2pol', 'leading-zeros', 'all-zero', 'all-zero-2pol'):
        s = pulses.astype(complex) if shape_kind != '2pol' else np.array([pulses, 0.5j * np.roll(pulses, 30)])
        if shape_kind == 'leading-zeros':
            s = s.copy(); s[:40] = 0
        if shape_kind.startswith('all-zero'):          # a dark record (e.g. a frame of zeros): the property says "any input"
            s = np.zeros(N, complex) if shape_kind == 'all-zero' else np.zeros((2, N), complex)
        s0 = s
        # the 4th and 5th sets are weak signals on a short fibre (amplitude scaled down): gamma*P_peak*L < phi_max, so the first
        # adaptive step is longer than the fibre and the remainder step is negative
        for (a, b2, b3, g, L, phi, amp) in ((0.2, -20.0, 0.1, 2.0, 10.0, 0.05, 1.0), (0.0, 5.0, 0.0, 5.0, 3.0, 0.01, 1.0), (0.5, 0.0, 0.0, 1.5, 20.0, 0.05, 1.0),
                                            (0.2, -20.0, 0.1, 1.3, 20.0, 0.1, 0.05), (0.3, 10.0, 0.0, 2.0, 1.0, 0.05, 0.1)):
            s = s0 * amp
            try:
                y = native_fiber(s, L, alpha=a, beta_2=b2, beta_3=b3, gamma=g, phi_max=phi)
                e_in, e_out = np.sum(np.abs(s) ** 2, axis=-1), np.sum(np.abs(y) ** 2, axis=-1)
                ok = y.shape == s.shape and np.isfinite(y).all() and np.allclose(e_out, e_in * np.exp(-(a / 4.343) * L), rtol=1e-9)
                if b2 == 0 and b3 == 0:
                    ap = a / 4.343
                    Leff = L if a == 0 else (1 - np.exp(-ap * L)) / ap
                    ok = ok and np.allclose(y, s * np.exp(-ap * L / 2) * np.exp(1j * g * np.abs(s) ** 2 * Leff), rtol=1e-9, atol=1e-12)
            except TimeoutError:
                ok = False
            if not ok:
                bad.append([shape_kind, a, b2, b3, g, L, phi, amp])
    gv.clean()
    return not bad, bad


def rep(m):
    st, out = native(native_energy_check, 400)
    return {'confirmed': st != 'ok' or not out[0], 'inputs': 'Gaussian pulse (1 pol, 2 pol, leading zero samples) and identically-zero fields (1 pol, 2 pol), five parameter sets [alpha, beta2, beta3, gamma, L, phi_max, amplitude scale] incl. the dispersion-free lossy case and two weak-signal/short-fibre cases (first step longer than the fibre)', 'observed': out}


def _mk_energy(npol):
    @clause(f'C08.energy[{npol}pol]', min_obl=6)
    def f(K):
        N = z3.Int('N')
        L, al, b2, b3, gm, phi = z3.Reals('L alpha beta2 beta3 gamma phi_max')
        ff = fn(K, 'devices.FIBER')
        holder = {}
        pre = [N >= 1, L > 0, al >= 0, gm > 0, phi > 0, z3.Or(b2 != 0, b3 != 0)]

        def run(ex):
            mk_gv(ex)
            x = mk_osig(ex, 'x', N, npol, False)
            return x, ex.call_fn(ff, [x, L], {'alpha': al, 'beta_2': b2, 'beta_3': b3, 'gamma': gm, 'phi_max': phi})
        ps = K.paths(run, pre, lambda ex: setup_loop(ex, npol, holder), expect_loops=True)
        kinds = {}
        for p in ps:
            kinds[p.kind] = kinds.get(p.kind, 0) + 1
            sig = p.signature()
            if p.kind == 'end':
                K.discharge_loop_obls(p, replay=rep)
                continue
            if p.kind != 'ret':
                K.prove(f'noraise[{sig}]', p.pc, False, replay=rep, words='FIBER accepts every field with gamma > 0, L > 0, alpha >= 0')
                continue
            x, y = p.value
            ok_shape = y.cls == 'optical_signal' and conc(y.f.get('n_pol')) == npol and y.f['signal'].ndim == x.f['signal'].ndim
            K.prove(f'shape[{sig}]', p.pc, And_(wf(y, N)) if ok_shape else False, replay=rep, words='output has the shape (length, polarisation layout) of the input')
            if not ok_shape:
                continue
            ap = al / z3.RealVal(Fraction('4.343'))
            # steps on this path: the havoc'd loop step and (possibly) the final partial step of size L - x_length
            # the havoc'd loop step h!k and distance x_length!k of *this* path (their names differ from path to path)
            names = sorted({str(d) for c in p.ex.pc if isz(c) for d in _consts(c)})
            hls = [z3.Real(n_) for n_ in names if n_.startswith('h!')]
            xls = [z3.Real(n_) for n_ in names if n_.startswith('x_length!')]
            tail = [L - v for v in xls]            # the tail step size is L - x_length with the havoc'd x_length
            facts = step_facts(p.ex, ap, hls + tail)
            # instances of exp(a)*exp(b) = exp(a+b) that chain the applied distances: (x_length - h) + h, then + (L - x_length),
            # also multiplied by the input energy of each polarisation (valid for all reals; they spare the solver the search for the product)
            e = lambda t: uf('exp', -ap * t)
            for xlv in xls:
                facts.append(e(xlv) * e(L - xlv) == e(L))
                for hl in hls:
                    facts.append(e(xlv - hl) * e(hl) == e(xlv))
                for r in range(npol):
                    E0 = toreal(opaque.sumsq(p.ex, row(x.f['signal'], npol, r)))
                    facts.append(E0 * e(xlv) * e(L - xlv) == E0 * e(L))
                    for hl in hls:
                        facts.append(E0 * e(xlv - hl) * e(hl) == E0 * e(xlv))
                        facts.append(E0 * e(xlv - hl) * e(hl) * e(L - xlv) == E0 * e(L))
            for r in range(npol):
                yr, xr = row(y.f['signal'], npol, r), row(x.f['signal'], npol, r)
                if opaque.find_app(p.ex, yr) is None:
                    # output produced element-wise (a closed-form branch): |y[i]|^2 = exp(-alpha' L) |x[i]|^2 sample by sample, then linearity of the sum
                    fi, p.ex.fast_ident = p.ex.__dict__.get('fast_ident'), False      # this premise may hold because of the path condition (e.g. an all-zero field)
                    lem = red.scale_lemma(p.ex, abs2arr(yr), abs2arr(xr), uf('exp', -ap * L), extra=[lambda j: red.instances(p.ex, [], [j])])
                    p.ex.fast_ident = fi
                    if lem is not None:
                        facts = facts + [lem]
                goal = toreal(opaque.sumsq(p.ex, row(y.f['signal'], npol, r))) == toreal(opaque.sumsq(p.ex, row(x.f['signal'], npol, r))) * uf('exp', -ap * L)
                # the goal is about sums and exp constants: facts about individual samples (reduction witnesses, the `any` witness of a non-dark
                # field) only slow the solver down; hypotheses not connected to the goal are dropped (a subset of the hypotheses: sound)
                from pyvc import numeval
                hy = numeval.relevant_hyps([h for h in list(p.pc) + facts if isz(h) and not z3.is_quantifier(h) and not _mentions_samples(h)], [goal])
                K.prove(f'energy[{sig},pol{r}]', hy, goal,
                        replay=rep, words="energy of each polarisation = input energy * exp(-alpha' L) for every sequence of step sizes (alpha' = alpha/4.343)")
            bad = purity_violations(p, y)
            (K.fail if bad else K.ok)(f'frame[{sig}]', '; '.join(bad) if bad else 'input untouched, fresh output')
        if not (kinds.get('end') and kinds.get('ret')):
            K.undecided('paths', f'expected iteration and return paths, got {kinds}')
    f.__name__ = f'energy_{npol}'
    return f


def _mentions_samples(h):
    """the hypothesis talks about individual array elements (an application of an array element function)"""
    st, seen = [h], set()
    while st:
        x = st.pop()
        if x.get_id() in seen:
            continue
        seen.add(x.get_id())
        if z3.is_app(x) and x.num_args() > 0 and x.decl().kind() == z3.Z3_OP_UNINTERPRETED and x.decl().name() not in UF:
            return True
        st.extend(x.children())
    return False


def _consts(t):
    seen, out, st = set(), [], [t]
    while st:
        x = st.pop()
        if x.get_id() in seen:
            continue
        seen.add(x.get_id())
        if z3.is_const(x) and x.decl().kind() == z3.Z3_OP_UNINTERPRETED:
            out.append(x)
        st.extend(x.children())
    return out


for _n in (1, 2):
    globals()[f'energy_{_n}'] = _mk_energy(_n)


def _mk_spm(npol):
    @clause(f'C08.spm[{npol}pol]', min_obl=2)
    def f(K):
        N, i = z3.Ints('N i')
        L, al, gm, phi = z3.Reals('L alpha gamma phi_max')
        ff = fn(K, 'devices.FIBER')

        def run(ex):
            mk_gv(ex)
            x = mk_osig(ex, 'x', N, npol, False)
            return x, ex.call_fn(ff, [x, L], {'alpha': al, 'gamma': gm, 'phi_max': phi})
        for p in K.paths(run, [N >= 1, i >= 0, i < N, L > 0, al >= 0, gm >= 0, phi > 0]):
            sig = p.signature()
            if p.kind != 'ret':
                K.prove(f'noraise[{sig}]', p.pc, False, replay=rep)
                continue
            x, y = p.value
            ap = al / z3.RealVal(Fraction('4.343'))
            ok_shape = y.cls == 'optical_signal' and conc(y.f.get('n_pol')) == npol and y.f['signal'].ndim == x.f['signal'].ndim
            K.prove(f'shape[{sig}]', p.pc, And_(wf(y, N)) if ok_shape else False, replay=rep, words='output has the shape of the input')
            if not ok_shape:
                continue
            for r in range(npol):
                idx = (i,) if npol == 1 else (r, i)
                a_in = x.f['signal'].elem(idx)
                P = toreal(opaque._abs2(a_in))
                lossless = p.ex.entails(al == 0)
                for case, hyp, Leff in ((('lossless', [al == 0], L),) if lossless else (('lossy', [al > 0], (1 - uf('exp', -ap * L)) / ap),)):
                    ph = gm * P * Leff
                    exp_v = s_mul(s_mul(a_in, uf('exp', -ap * L / 2)), Cx(uf('cos', ph), uf('sin', ph)))
                    got = y.f['signal'].elem(idx)
                    for comp, pick in (('re', s_real), ('im', s_imag)):
                        K.prove_congruent(f'closed_form.{case}.{comp}[{sig},pol{r}]', list(p.pc) + hyp, toreal(pick(got)), toreal(pick(exp_v)), replay=rep,
                                          words="beta2 = beta3 = 0: out = in*exp(-alpha' L/2)*exp(j*gamma*|in|^2*L_eff), L_eff = (1-exp(-alpha' L))/alpha' (L when alpha = 0)")
    f.__name__ = f'spm_{npol}'
    return f


for _n in (1, 2):
    globals()[f'spm_{_n}'] = _mk_spm(_n)


@clause('C08.bounded', min_obl=2)
def bounded(K):
    thorough = K.tier == 'thorough'
    seed = K.seed

    def reference(s, L, a, b2, b3, g, fs, nsteps):
        """independent fixed-step symmetric split-step integrator (scalar NLSE per polarisation, as the device models it)"""
        import numpy as np
        N = s.shape[-1]
        w = 2 * np.pi * np.fft.fftfreq(N) * fs * 1e-12
        ap = a / 4.343
        h = L / nsteps
        lin = np.exp((-ap / 2 - 1j * b2 * w ** 2 / 2 - 1j * b3 * w ** 3 / 6) * h)
        A = s.astype(complex)
        for _ in range(nsteps):
            A = A * np.exp(1j * g * (h / 2) * np.abs(A) ** 2)
            A = np.fft.ifft(lin * np.fft.fft(A, axis=-1), axis=-1)
            A = A * np.exp(1j * g * (h / 2) * np.abs(A) ** 2)
        return A

    def work():
        import numpy as np
        from opticomlib.typing import gv
        gv(sps=8, R=10e9)
        fs = gv.fs
        rng = np.random.default_rng(seed)
        bad, n, seen = [], 0, set()
        N = 512
        t = np.arange(N)
        fields = {'gauss-train': sum(np.sqrt(0.4) * np.exp(-((t - c) / 10.0) ** 2) for c in (100, 220, 400)).astype(complex),
                  'leading-zeros': np.concatenate((np.zeros(64), np.sqrt(0.3) * np.exp(-((t[:448] - 200) / 15.0) ** 2))).astype(complex)}
        if thorough:
            sm = np.fft.ifft(np.fft.fft(rng.normal(size=N) + 1j * rng.normal(size=N)) * np.exp(-(np.fft.fftfreq(N) * 40) ** 2))
            fields['random-smooth'] = sm / np.abs(sm).max() * np.sqrt(0.5)
        params = [(0.2, -20.0, 0.1, 2.0, 8.0), (0.0, 15.0, -0.1, 4.0, 4.0)] + ([(0.5, 25.0, 0.2, 1.0, 20.0), (0.1, -5.0, 0.0, 5.0, 3.0)] if thorough else [])
        for fname, s in fields.items():
            for (a, b2, b3, g, L) in params:
                ref = reference(s, L, a, b2, b3, g, fs, 4000)
                errs = []
                for phi in (0.1, 0.02, 0.005):
                    n += 1
                    seen.add((fname, a, b2, g, L))
                    try:
                        y = native_fiber(s, L, alpha=a, beta_2=b2, beta_3=b3, gamma=g, phi_max=phi)
                    except TimeoutError:
                        bad.append({'field': fname, 'params': [a, b2, b3, g, L], 'phi_max': phi, 'problem': 'no result within 60 s'})
                        errs = None
                        break
                    if not np.isfinite(y).all():
                        bad.append({'field': fname, 'params': [a, b2, b3, g, L], 'phi_max': phi, 'problem': 'non-finite output'})
                        errs = None
                        break
                    errs.append(float(np.linalg.norm(y - ref) / np.linalg.norm(ref)))
                if errs:
                    C = 2 * errs[0] / 0.1
                    if not (errs[1] <= C * 0.02 + 1e-6 and errs[2] <= C * 0.005 + 1e-6 and errs[2] <= 0.05):
                        bad.append({'field': fname, 'params': [a, b2, b3, g, L], 'rel_errors(phi=0.1,0.02,0.005)': errs})
                # 1-pol == x-pol of a 2-pol input with empty y
                n += 1
                try:
                    y1 = native_fiber(s, L, alpha=a, beta_2=b2, beta_3=b3, gamma=g, phi_max=0.05)
                    y2 = native_fiber(np.array([s, np.zeros_like(s)]), L, alpha=a, beta_2=b2, beta_3=b3, gamma=g, phi_max=0.05)
                    if not (np.allclose(y2[0], y1, rtol=1e-9, atol=1e-12) and np.abs(y2[1]).max() == 0):
                        bad.append({'field': fname, 'params': [a, b2, b3, g, L], 'problem': '1-pol differs from x-pol of [A; 0]'})
                except TimeoutError:
                    bad.append({'field': fname, 'params': [a, b2, b3, g, L], 'problem': 'timeout in polarisation equivalence'})
        # history: the same fibre and record length after the sampling rate changed (nothing may be kept from the earlier call)
        gv(sps=8, R=10e9)
        s = fields['gauss-train']
        a, b2, b3, g, L = params[0]
        y_first = native_fiber(s, L, alpha=a, beta_2=b2, beta_3=b3, gamma=g, phi_max=0.02)
        gv(sps=8, R=20e9)
        n += 1
        seen.add(('history', 'fs doubled'))
        try:
            y = native_fiber(s, L, alpha=a, beta_2=b2, beta_3=b3, gamma=g, phi_max=0.02)
            ref = reference(s, L, a, b2, b3, g, gv.fs, 4000)
            e_ = float(np.linalg.norm(y - ref) / np.linalg.norm(ref))
            if not e_ <= 0.05:
                bad.append({'field': 'gauss-train', 'params': [a, b2, b3, g, L], 'problem': f'after gv.fs changed from 80 to 160 GS/s the result is {e_:.3f} away from the solution on the new grid'})
        except TimeoutError:
            bad.append({'field': 'gauss-train', 'problem': 'timeout after gv change'})
        # smallest phi_max of the stated range: thousands of nearly equal steps (energy law and accuracy must not drift)
        gv(sps=8, R=10e9)
        sp = (np.sqrt(0.5) * (np.exp(-((t - 200) / 60.0) ** 2) + np.exp(-((t - 380) / 50.0) ** 2))).astype(complex)
        sp[:40] = 0
        for shape2 in (False, True):
            s_ = np.array([sp, 0.5 * np.roll(sp, 25)]) if shape2 else sp
            n += 1
            seen.add(('tiny-phi', shape2))
            try:
                y = native_fiber(s_, 4.0, timeout=240, alpha=0.5, beta_2=-20.0, beta_3=0.1, gamma=5.0, phi_max=5e-4)
                e_in, e_out = np.sum(np.abs(s_) ** 2, axis=-1), np.sum(np.abs(y) ** 2, axis=-1)
                if not np.allclose(e_out, e_in * np.exp(-(0.5 / 4.343) * 4.0), rtol=1e-6):
                    bad.append({'field': 'two wide pulses, leading zeros', 'params': [0.5, -20.0, 0.1, 5.0, 4.0], 'phi_max': 5e-4, 'problem': f'energy ratio {(e_out / e_in).tolist()} instead of {float(np.exp(-(0.5 / 4.343) * 4.0))}'})
            except TimeoutError:
                bad.append({'field': 'two wide pulses', 'phi_max': 5e-4, 'problem': 'no result within 240 s'})
        # zero-dispersion wavelength (beta2 = 0, beta3 != 0) on a wide-band grid where third-order dispersion matters
        gv(sps=8, R=40e9)
        fs2 = gv.fs
        s = sum(np.sqrt(0.3) * np.exp(-((t - c) / 2.5) ** 2) for c in (120, 260, 300)).astype(complex)
        for (a, b2, b3, g, L) in ((0.2, 0.0, 0.2, 1.5, 40.0), (0.0, 0.0, -0.15, 0.0, 60.0)):
            ref = reference(s, L, a, b2, b3, g, fs2, 4000)
            errs = []
            for phi in (0.1, 0.02, 0.005):
                n += 1
                seen.add(('zdw', a, b2, b3, g, L))
                try:
                    y = native_fiber(s, L, alpha=a, beta_2=b2, beta_3=b3, gamma=g, phi_max=phi)
                    errs.append(float(np.linalg.norm(y - ref) / np.linalg.norm(ref)))
                except TimeoutError:
                    bad.append({'field': 'short pulses at 320 GS/s', 'params': [a, b2, b3, g, L], 'phi_max': phi, 'problem': 'no result within 60 s'})
                    errs = None
                    break
            if errs:
                C = 2 * errs[0] / 0.1
                if not (errs[1] <= C * 0.02 + 1e-6 and errs[2] <= C * 0.005 + 1e-6 and errs[2] <= 0.05):
                    bad.append({'field': 'short pulses at 320 GS/s', 'params': [a, b2, b3, g, L], 'rel_errors(phi=0.1,0.02,0.005)': errs})
        gv.clean()
        return {'n': n, 'distinct': len(seen), 'bad': bad[:6], 'nbad': len(bad)}
    st, r = native(work, 3000)
    K.bounded('nlse_convergence', st == 'ok' and r['nbad'] == 0, {'evaluations': r['n'] if st == 'ok' else 0, 'distinct_nontrivial': r['distinct'] if st == 'ok' else 0,
              'bound': '2 fields (thorough 3) x 2 parameter sets (thorough 4) x phi_max in {0.1,0.02,0.005}; reference: 4000 fixed steps; N=512; plus the first set again after gv.fs doubled, phi_max = 5e-4 (energy law over thousands of steps) and two zero-dispersion-wavelength sets (beta2 = 0, beta3 != 0, one of them linear) on short pulses at 320 GS/s', 'samples': [{'field': 'gauss-train', 'alpha': 0.2, 'beta2': -20, 'gamma': 2, 'L': 8}],
              'failures': r if st == 'ok' else [st, r]})
    st, out = native(native_energy_check, 600)
    K.bounded('energy_numeric', st == 'ok' and out[0], {'evaluations': 25, 'distinct_nontrivial': 25, 'bound': '5 layouts (incl. leading zero samples and identically-zero fields) x 5 parameter sets (two with the first adaptive step longer than the fibre): finiteness, shape, energy law to 1e-9, SPM closed form',
                                                         'samples': [{'layout': 'leading-zeros'}], 'failures': out if st == 'ok' else [st, out]})


def frame_runs(K):
    N = z3.Int('N')
    L, gm = z3.Reals('L gamma')
    ff = fn(K, 'devices.FIBER')
    return [('devices.FIBER.spm', lambda ex: (mk_gv(ex), ex.call_fn(ff, [mk_osig(ex, 'x', N, 2, True), L], {'gamma': gm}))[1], [N >= 1, L > 0, gm >= 0], None)]
