"""C17 - Eye estimator recovers the levels of a clean two-level signal in any unit.

No deductive part.  GET_EYE is a statistical estimator built from scikit-learn's KMeans (random initialisation), scipy's
gaussian_kde and Fourier resampling; none of them has a contract a verifier here could check, and the property itself is a
tolerance statement about noisy data ("within 8% of (b-a)").  What the family offers is the bounded stand-in: the contract of
GET_EYE is written as a precondition on the waveform and a postcondition on the returned eye object (plus the relational
postcondition "affine change of units"), and checked at run time on the real function over a stated grid.  It is labelled
bounded and not counted as proved.  (The one pure helper, utils.shortest_int, is under a proved contract in C18.)
"""
import z3
from pyvc.vc import clause
from pyvc.values import *
from .common import *

LEVEL = 'exploration'
LEVEL_TEXT = ('Bounded run-time contract check only (nothing proved): the postcondition of GET_EYE (levels within 8% of b-a, spreads between sigma/2 and 2 sigma + 3%, mu0 < threshold < mu1, crossings one slot apart with the optimum midway, '
              'integer sampling index in [0, sps)) and the relational postcondition (alpha*x + beta scales/offsets mu0, mu1, scales s0, s1 and leaves t_left, t_right, t_opt, i unchanged) are evaluated on the real function for a grid of '
              'random/PRBS patterns, sps in {8,16,32}, swings from 1e-3 V to 100 V, noise 0.5-5 %, alpha in [1e-3, 1e3], under fixed numpy seeds. KMeans, gaussian_kde and resample are outside any verifier available here.')
LEVEL_NOTE = 'bounded, never counted as proved; scikit-learn KMeans / scipy gaussian_kde / scipy.signal.resample trusted as they are; fixed numpy seeds'
EXPLANATION = LEVEL_TEXT
TECHNIQUE = 'bounded stand-in: pre/postcondition contract of GET_EYE (and its affine-equivariance relation) checked at run time on the real function over a stated grid; no deductive obligation (KMeans/KDE outside verifier reach)'
BOUNDED_RULE = ('random and PRBS7 patterns of 64..256 slots, sps in {8,16,32}, sps_resamp=128, swing b-a = 10^u, u in [-3, 2] (always including 1e-3, 1 and 100), offsets a in [-2,2]*(b-a), sigma in [0.5%,5%], '
                'alpha = 10^v, v in [-3,3], beta in [-3,3]*alpha*(b-a); one case in seven with nslots=64 < number of slots; numpy seed fixed per case; distinct = distinct (pattern, sps, swing, sigma, alpha)')


def _one_case(args):
    """contract check of one call pair on the real GET_EYE (runs in a worker process)"""
    import numpy as np, warnings
    warnings.simplefilter('ignore')
    from opticomlib.typing import gv, electrical_signal
    from opticomlib.devices import DAC, GET_EYE, LPF, PRBS
    k, seed, sps, nb, src, d, a_rel, sg, al, be_rel = args
    nslots_arg = 64 if k % 7 == 3 else None            # some calls analyse fewer slots than the record holds (nslots < number of slots)
    rng = np.random.default_rng(seed * 1000 + k)
    gv(sps=sps, R=1e9)
    bits = rng.integers(0, 2, nb) if src == 'random' else np.asarray(PRBS(order=7).data)[:127].astype(int)
    bits[:2] = (0, 1)
    w = LPF(DAC(bits, Vout=1.0, pulse_shape='nrz'), 0.8e9).signal              # mild band-limiting
    a = a_rel * d
    b = a + d
    s = a + d * w + rng.normal(0, sg * d, w.size)
    be = be_rel * al * d
    case = {'pattern': src, 'slots': int(len(bits)), 'nslots': nslots_arg, 'sps': sps, 'a': a, 'b': b, 'sigma_rel': sg, 'alpha': al, 'beta': be, 'numpy_seed': 7}
    # precondition of the contract (by construction): two levels a < b, both symbols present, sigma <= 5% of b-a
    try:
        np.random.seed(7)
        kw = {} if nslots_arg is None else {'nslots': nslots_arg}
        e = GET_EYE(electrical_signal(s), sps_resamp=128, **kw)
        np.random.seed(7)
        e2 = GET_EYE(electrical_signal(al * s + be), sps_resamp=128, **kw)
    except Exception as ex_:
        return dict(case, problem=f'{type(ex_).__name__}: {ex_}')
    prob = []
    vals = [e.mu0, e.mu1, e.s0, e.s1, e.t_left, e.t_right, e.t_opt]
    if e.threshold is None or not all(np.isfinite(v) for v in vals + [e.threshold]):
        prob.append(f'non-finite estimates {vals} threshold {e.threshold}')
    else:
        if abs(e.mu0 - a) > 0.08 * d:
            prob.append(f'mu0 off by {(e.mu0 - a) / d:.3f} (b-a)')
        if abs(e.mu1 - b) > 0.08 * d:
            prob.append(f'mu1 off by {(e.mu1 - b) / d:.3f} (b-a)')
        for nm, sv in (('s0', e.s0), ('s1', e.s1)):
            if not (sg * d / 2 <= sv <= 2 * sg * d + 0.03 * d):
                prob.append(f'{nm} = {sv / d:.4f} (b-a) for sigma = {sg:.4f} (b-a)')
        if not (e.mu0 < e.threshold < e.mu1):
            prob.append('threshold not between mu0 and mu1')
        if abs((e.t_right - e.t_left) - 1) > 0.1:
            prob.append(f'crossings {e.t_left}, {e.t_right} not one slot apart')
        if abs(e.t_opt - (e.t_left + e.t_right) / 2) > 0.02:
            prob.append(f't_opt {e.t_opt} not midway between {e.t_left} and {e.t_right}')
        if not (float(e.i).is_integer() and 0 <= e.i < sps):
            prob.append(f'sampling index {e.i} outside [0, {sps})')
        tol = 1e-6 * d * al
        if e2.threshold is None or not all(np.isfinite(v) for v in (e2.mu0, e2.mu1, e2.s0, e2.s1)):
            prob.append(f'alpha*x+beta: non-finite estimates ({e2.mu0}, {e2.mu1}, {e2.s0}, {e2.s1}, {e2.threshold})')
        else:
            if abs(e2.mu0 - (al * e.mu0 + be)) > tol or abs(e2.mu1 - (al * e.mu1 + be)) > tol:
                prob.append(f'levels not equivariant: mu0 {e2.mu0} vs {al * e.mu0 + be}, mu1 {e2.mu1} vs {al * e.mu1 + be}')
            if abs(e2.s0 - al * e.s0) > tol or abs(e2.s1 - al * e.s1) > tol:
                prob.append('spreads not equivariant')
            if (e2.t_left, e2.t_right, e2.t_opt, e2.i) != (e.t_left, e.t_right, e.t_opt, e.i):
                prob.append(f'timing outputs changed with the unit: {(e.t_left, e.t_right, e.t_opt, e.i)} -> {(e2.t_left, e2.t_right, e2.t_opt, e2.i)}')
    return dict(case, problem=prob) if prob else None


@clause('C17.bounded', min_obl=1)
def bounded(K):
    thorough = K.tier == 'thorough'
    seed = K.seed

    def work():
        import numpy as np
        from concurrent.futures import ProcessPoolExecutor
        import multiprocessing as mp
        rng = np.random.default_rng(seed)
        ncase = 150 if thorough else 30
        cases = []
        for k in range(ncase):
            sps = (8, 16, 32)[k % 3]
            src = 'prbs' if k % 5 == 4 else 'random'
            nb = int(rng.choice([64, 100, 256]))
            d = [1e-3, 1.0, 100.0][(k // 3) % 3] if k < 9 else float(10 ** rng.uniform(-3, 2))      # the first nine: every sps with 1 mV, 1 V and 100 V swings
            cases.append((k, seed, sps, nb, src, d, float(rng.uniform(-2, 2)), float(rng.uniform(0.005, 0.05)), float(10 ** rng.uniform(-3, 3)), float(rng.uniform(-3, 3))))
        with ProcessPoolExecutor(12, mp_context=mp.get_context('fork')) as pool:
            res = list(pool.map(_one_case, cases))
        bad = [r for r in res if r]
        return {'n': 2 * len(cases), 'distinct': len(cases), 'bad': bad[:6], 'nbad': len(bad)}
    st, r = native(work, 6000)
    K.bounded('get_eye_contract', st == 'ok' and r['nbad'] == 0,
              {'evaluations': r['n'] if st == 'ok' else 0, 'distinct_nontrivial': r['distinct'] if st == 'ok' else 0,
               'bound': f'{150 if thorough else 30} waveform/unit pairs (two GET_EYE calls each): ' + BOUNDED_RULE,
               'samples': [{'sps': 16, 'a': 0.0, 'b': 100.0, 'sigma_rel': 0.02, 'alpha': 1e-3}], 'failures': r if st == 'ok' else [st, r]})
