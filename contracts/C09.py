"""C09 - PD is a square-law detector with unit DC gain and the documented noise powers.

Under contract (devices.py): PD, with LPF, electrical_signal.abs/power and the constructors inlined.  The output filter is the
uninterpreted linear operator L[4, BW, gv.fs] of C11; numpy.random.normal draws are unconstrained arrays carrying a
(mean, std) tag, so "the thermal term is zero-mean Gaussian of variance ..." is an equality on the tag.
Bounded: measured variances x noise-equivalent bandwidth (statistical, six-sigma), unit DC gain.
"""
import itertools
import z3
from pyvc.vc import clause, mval
from pyvc.values import *
from pyvc import opaque, reduce as red
from .common import *
from .C01 import wf, And_
from .C11 import Lspec

LEVEL = 'proof'
LEVEL_TEXT = ('Proof for all fields and parameters of everything deterministic or parametric: signal = L[4,BW,fs](R_L*r*sum_p|E_p|^2) (hence unchanged by any per-sample phase rotation or unitary Jones '
              'rotation, linear in r and R_L, quadratic in amplitude); the noise part is L[4,BW,fs](R_L*i_noise) with i_noise exactly the terms selected by include_noise (any letter case) plus the dark '
              'current; the thermal and shot draws are zero-mean normal with variances 4kB*T*Fn*(fs/2)/R_L and 2e*(r*(mean signal power + mean optical-noise power) + i_dark)*fs/2; the documented '
              'TypeError/ValueError validation; output length = input length. The statistical clause (measured variance x noise-equivalent bandwidth, six-sigma) and unit DC gain are bounded.')
LEVEL_NOTE = 'L is an uninterpreted linear operator (its DC gain is the bounded clause of C11/C09); np.random.normal is trusted to sample the tagged distribution; floats as reals'
EXPLANATION = LEVEL_TEXT
BOUNDED_RULE = 'CW inputs of 2^16..2^18 samples, all seven include_noise selections: sample variance vs formula x noise-equivalent bandwidth of the real filter within six sigma; DC level r*P*R_L; distinct = distinct (selection, r, T, R_L, BW)'

KB = z3.RealVal(Fraction('1.380649e-23'))
QE = z3.RealVal(Fraction('1.602176634e-19'))
SELECTIONS = {'ase-only': 'a', 'thermal-only': 't', 'shot-only': 's', 'ase-thermal': 'at', 'ase-shot': 'as', 'thermal-shot': 'ts', 'all': 'ats'}


def abs2(v):
    return opaque._abs2(v)


def power_arr(x, npol, N, part='signal'):
    """sum over polarisations of |E_p[i]|^2 as a 1-D real array"""
    a = x.f[part]
    if npol == 1:
        return Arr([N], lambda ix: toreal(abs2(a.elem(ix))), 'float')
    return Arr([N], lambda ix: toreal(abs2(a.elem((0, ix[0])))) + toreal(abs2(a.elem((1, ix[0])))), 'float')


def native_pd_check():
    import numpy as np, scipy.signal as sg
    from opticomlib.typing import gv, optical_signal as O
    from opticomlib.devices import PD
    rng = np.random.default_rng(0)
    gv(sps=16, R=1e9)
    N, BW, bad = 512, 5e9, []
    sos = sg.bessel(N=4, Wn=BW, btype='low', fs=gv.fs, output='sos', norm='mag')
    for shape in ((N,), (2, N)):
        s = (rng.normal(size=shape) + 1j * rng.normal(size=shape)) * 0.03
        nz = (rng.normal(size=shape) + 1j * rng.normal(size=shape)) * 0.003
        for noise in (None, nz):
            for r, RL in ((1.0, 50.0), (0.6, 75.0)):
                x = O(s, noise)
                np.random.seed(1)
                y = PD(x, BW, r=r, R_load=RL, include_noise='ASE-only')
                P = np.abs(s) ** 2 if len(shape) == 1 else (np.abs(s) ** 2).sum(axis=0)
                ok = np.allclose(y.signal, sg.sosfiltfilt(sos, RL * r * P), rtol=1e-9, atol=1e-15) and len(y.signal) == N
                if noise is not None:
                    beat = r * (2 * (s * noise.conj()).real + np.abs(noise) ** 2)
                    beat = beat if len(shape) == 1 else beat.sum(axis=0)
                    ok = ok and np.allclose(y.noise, sg.sosfiltfilt(sos, RL * (beat + 10e-9)), rtol=1e-9, atol=1e-15)
                else:
                    ok = ok and np.allclose(y.noise, sg.sosfiltfilt(sos, np.full(N, RL * 10e-9)), rtol=1e-9, atol=1e-18)
                ph = np.exp(1j * rng.uniform(0, 6.28, size=N))
                y2 = PD(O(s * ph, None if noise is None else noise * ph), BW, r=r, R_load=RL, include_noise='ase-only')
                ok = ok and np.allclose(y2.signal, y.signal, rtol=1e-9, atol=1e-15)
                if not ok:
                    bad.append([shape, noise is not None, r, RL])
    gv.clean()
    return not bad, bad


def rep(m):
    st, out = native(native_pd_check, 120)
    return {'confirmed': st != 'ok' or not out[0], 'inputs': 'random fields N=512, 1/2 polarisations, with/without optical noise, r in {1,0.6}, R_L in {50,75}, include_noise=ase-only', 'observed': out}


def _mk_signal(npol):
    @clause(f'C09.signal[{npol}pol]', min_obl=8)
    def f(K):
        N, i = z3.Ints('N i')
        BW, r, RL, T, idark, k_amp, r2 = z3.Reals('BW r R_load T i_dark k_amp r2')
        fp = fn(K, 'devices.PD')
        pre = [N >= 1, i >= 0, i < N, BW > 0, r > 0, r <= 1, r2 > 0, r2 <= 1, T >= 0, RL > 0, idark >= 0]
        for noise in (False, True):
            def run(ex):
                g = mk_gv(ex)
                x = mk_osig(ex, 'x', N, npol, noise)
                spec = Lspec(ex, Arr([N], lambda ix: RL * r * power_arr(x, npol, N).elem(ix), 'float'), 4, BW, g.f['fs'])
                kw = {'r': r, 'T': T, 'R_load': RL, 'i_dark': idark}
                y = ex.call_fn(fp, [x, BW], dict(kw))
                # per-sample phase rotation and unitary Jones rotation of the input field
                ph = real_arr('phi', [N])
                rot = lambda a: None if a is None else Arr(a.shape, (lambda ix, a=a: s_mul(a.elem(ix), Cx(uf('cos', ph.elem((ix[-1],))), uf('sin', ph.elem((ix[-1],)))))), 'complex')
                xr = Obj('optical_signal', signal=rot(x.f['signal']), noise=rot(x.f['noise']), n_pol=npol, execution_time=0)
                yr = ex.call_fn(fp, [xr, BW], dict(kw))
                yj = None
                if npol == 2:
                    ar, ai, br, bi = z3.Reals('ja_re ja_im jb_re jb_im')
                    ex.assume(ar * ar + ai * ai + br * br + bi * bi == 1)
                    a_, b_ = Cx(ar, ai), Cx(br, bi)
                    def jones(arr):
                        if arr is None:
                            return None
                        e = arr.elem
                        def el(ix):
                            ex_, ey_ = e((0, ix[1])), e((1, ix[1]))
                            top = s_add(s_mul(a_, ex_), s_mul(b_, ey_))
                            bot = s_add(s_mul(s_neg(s_conj(b_)), ex_), s_mul(s_conj(a_), ey_))
                            return s_ite(tonum(ix[0]) == 0, top, bot) if not isinstance(conc(ix[0]), int) else (top if conc(ix[0]) == 0 else bot)
                        return Arr(arr.shape, el, 'complex')
                    xj = Obj('optical_signal', signal=jones(x.f['signal']), noise=jones(x.f['noise']), n_pol=2, execution_time=0)
                    yj = ex.call_fn(fp, [xj, BW], dict(kw))
                # scaling: other responsivity, scaled amplitude
                y_r2 = ex.call_fn(fp, [x, BW], dict(kw, r=r2))
                sc = lambda a: None if a is None else Arr(a.shape, (lambda ix, a=a: s_mul(k_amp, a.elem(ix))), 'complex')
                xk = Obj('optical_signal', signal=sc(x.f['signal']), noise=sc(x.f['noise']), n_pol=npol, execution_time=0)
                y_k = ex.call_fn(fp, [xk, BW], dict(kw))
                return x, spec, y, yr, yj, y_r2, y_k
            for p in K.paths(run, pre):
                sig = f'noise={noise}][{p.signature()}'
                if p.kind != 'ret':
                    K.prove(f'noraise[{sig}]', p.pc, False, replay=rep, words='PD accepts every optical field with valid r, T, R_load')
                    continue
                x, spec, y, yr, yj, y_r2, y_k = p.value
                K.prove(f'shape[{sig}]', p.pc, And_(wf(y, N)) if y.cls == 'electrical_signal' else False, replay=rep, words='electrical_signal of the input length')
                ys = lambda o: toreal(o.f['signal'].elem((i,)))
                K.prove(f'square_law[{sig}]', p.pc, ys(y) == toreal(spec.elem((i,))), replay=rep, words='signal = L[4,BW,fs](R_load * r * (|Ex|^2 + |Ey|^2)): deterministic, no random term')
                K.prove(f'phase_invariant[{sig}]', p.pc, ys(yr) == ys(y), replay=rep, words='unchanged by any per-sample phase rotation of the field')
                if yj is not None:
                    K.prove(f'jones_invariant[{sig}]', p.pc, ys(yj) == ys(y), replay=rep, words='unchanged by any unitary rotation of the polarisation state')
                # linear in r (and likewise R_load), quadratic in amplitude: through the linearity axiom of L
                a0 = opaque.find_app(p.ex, y.f['signal'])
                for nm, other, coef, words in (('r', y_r2, r2 / r, 'linear in the responsivity (same for R_load, which enters as the same factor)'), ('amplitude', y_k, k_amp * k_amp, 'quadratic in the field amplitude')):
                    a1 = opaque.find_app(p.ex, other.f['signal'])
                    fact = opaque.linear_fact(p.ex, a1, [(coef, a0)]) if a0 is not None and a1 is not None else None
                    if fact is None:
                        K.prove(f'scaling.{nm}[{sig}]', p.pc, False, replay=rep, words=words)
                    else:
                        K.prove(f'scaling.{nm}[{sig}]', list(p.pc) + [fact(i)], ys(other) == coef * ys(y), replay=rep, words=words)
                bad = purity_violations(p, y)
                (K.fail if bad else K.ok)(f'frame[{sig}]', '; '.join(bad) if bad else 'input untouched, fresh output')
    f.__name__ = f'signal_{npol}'
    return f


for _n in (1, 2):
    globals()[f'signal_{_n}'] = _mk_signal(_n)


def _mk_terms(selname, npol):
    letters = SELECTIONS[selname]

    @clause(f'C09.terms[{selname},{npol}pol]', min_obl=4)
    def f(K):
        N, i = z3.Ints('N i')
        BW, r, RL, T, idark, Fn = z3.Reals('BW r R_load T i_dark Fn')
        fp = fn(K, 'devices.PD')
        pre = [N >= 1, i >= 0, i < N, BW > 0, r > 0, r <= 1, T >= 0, RL > 0, idark >= 0, Fn >= 0]
        for noise in (False, True):
            for spelling in (selname, selname.upper(), selname.title()):
                def run(ex):
                    g = mk_gv(ex)
                    x = mk_osig(ex, 'x', N, npol, noise)
                    return g, x, ex.call_fn(fp, [x, BW], {'r': r, 'T': T, 'R_load': RL, 'include_noise': spelling, 'i_dark': idark, 'Fn': Fn})
                for p in K.paths(run, pre):
                    sig = f'noise={noise},{spelling}][{p.signature()}'
                    if p.kind != 'ret':
                        K.prove(f'noraise[{sig}]', p.pc, False, words=f'include_noise={spelling!r} is a documented selection (any letter case)')
                        continue
                    g, x, y = p.value
                    fs = toreal(g.f['fs'])
                    draws = p.ex.__dict__.get('draws', [])
                    want = ('t' in letters) + ('s' in letters)
                    if len(draws) != want:
                        K.fail(f'draws[{sig}]', f'{len(draws)} random draws, expected {want} (thermal: {"t" in letters}, shot: {"s" in letters})')
                        continue
                    # identify the draws by their variance parameter
                    Psig = red.reduce_(p.ex, 'mean', power_arr(x, npol, N), 0)
                    if noise:
                        nz = x.f['noise']
                        m = red.reduce_(p.ex, 'mean', Arr(nz.shape, (lambda ix: toreal(abs2(nz.elem(ix)))), 'float'), -1)      # mean optical-noise power per polarisation
                        Pn = toreal(m) if npol == 1 else toreal(m.elem((0,))) + toreal(m.elem((1,)))
                    else:
                        Pn = z3.RealVal(0)
                    # mean(r*P) = r*mean(P): linearity of the sum, instantiated (and checked) for the code's own reduction
                    pw = power_arr(x, npol, N)
                    lem = red.scale_lemma(p.ex, Arr([N], lambda ix: r * toreal(pw.elem(ix)), 'float'), pw, r)
                    lin = [lem] if lem is not None else []
                    var_T = 4 * KB * T * (fs / 2) * uf('pow10', Fn / 10) / RL
                    var_S = 2 * QE * (r * toreal(Psig) + r * Pn + idark) * (fs / 2)
                    terms = z3.RealVal(0) + idark
                    di = 0
                    if 't' in letters:
                        d = draws[di]; di += 1
                        K.prove(f'thermal.params[{sig}]', p.pc, z3.And(toreal(d.dist['mean']) == 0, toreal(s_pow(d.dist['std'], 2)) == var_T, tonum(d.shape[0]) == N),
                                words='thermal term: N zero-mean normal samples of variance 4*kB*T*Fn*(fs/2)/R_load')
                        terms = terms + toreal(d.elem((i,)))
                    if 's' in letters:
                        d = draws[di]; di += 1
                        K.prove(f'shot.params[{sig}]', list(p.pc) + lin, z3.And(toreal(d.dist['mean']) == 0, toreal(s_pow(d.dist['std'], 2)) == var_S, tonum(d.shape[0]) == N),
                                words='shot term: N zero-mean normal samples of variance 2e*(r*(mean signal power + mean optical-noise power) + i_dark)*fs/2')
                        terms = terms + toreal(d.elem((i,)))
                    if 'a' in letters and noise:
                        sg_, nz = x.f['signal'], x.f['noise']
                        def beat(ix):
                            s_, n_ = sg_.elem(ix), nz.elem(ix)
                            return 2 * toreal(s_real(s_mul(s_, s_conj(n_)))) + toreal(abs2(n_))
                        b = beat((i,)) if npol == 1 else beat((0, i)) + beat((1, i))
                        terms = terms + r * b
                    spec_in = None
                    # out.noise = L(R_load * i_noise)
                    app = opaque.find_app(p.ex, y.f['noise']) if y.f['noise'] is not None else None
                    if app is None:
                        K.prove(f'noise_is_filtered[{sig}]', p.pc, False, words='the noise component is the output filter applied to R_load*i_noise')
                        continue
                    K.prove(f'selection[{sig}]', p.pc, toreal(app.inp.elem((i,))) == RL * terms,
                            words=f'i_noise = exactly the selected terms ({selname}: ' + ', '.join({"a": "signal-noise + noise-noise beating", "t": "thermal", "s": "shot"}[c] for c in letters) + ') + i_dark, times R_load, then low-pass filtered')
                    K.prove(f'filter[{sig}]', p.pc, z3.BoolVal(app.op == 'L' and opaque.params_equal(p.ex, app.params, (4, BW, g.f['fs'], 'low', 'mag'))), words='filtered by L[4, BW, gv.fs]')
    f.__name__ = f'terms_{selname.replace("-", "_")}_{npol}'
    return f


for _s in SELECTIONS:
    for _n in (1, 2):
        _f = _mk_terms(_s, _n)
        globals()[_f.__name__] = _f


@clause('C09.validate', min_obl=10)
def validate(K):
    N = z3.Int('N')
    BW = z3.Real('BW')
    fp = fn(K, 'devices.PD')
    cases = [('r str', dict(r='1'), 'TypeError'), ('r 0', dict(r=0), 'ValueError'), ('r 1.5', dict(r=Fraction(3, 2)), 'ValueError'), ('r -0.1', dict(r=Fraction(-1, 10)), 'ValueError'),
             ('T str', dict(T='300'), 'TypeError'), ('T -1', dict(T=-1), 'ValueError'), ('R_load complex', dict(R_load=Cx(Fraction(50), Fraction(0))), 'TypeError'), ('R_load -50', dict(R_load=-50), 'ValueError'),
             ('include_noise int', dict(include_noise=3), 'TypeError'), ('include_noise unknown', dict(include_noise='everything'), 'ValueError'), ('include_noise thermal', dict(include_noise='thermal'), 'ValueError'),
             ('include_noise shot', dict(include_noise='shot'), 'ValueError')]
    for nm, kw, exp in cases:
        for p in K.paths(lambda ex: (mk_gv(ex), ex.call_fn(fp, [mk_osig(ex, 'x', N, 1, True), BW], dict(kw)))[1], [N >= 1, BW > 0]):
            (K.ok if p.kind == 'raise' and p.value == exp else K.fail)(f'{nm}[{p.signature()}]', f'expected {exp}, got {p.kind} {p.value}')
    for p in K.paths(lambda ex: (mk_gv(ex), ex.call_fn(fp, [mk_esig(ex, 'e', N), BW], {}))[1], [N >= 1, BW > 0]):
        (K.ok if p.kind == 'raise' and p.value == 'TypeError' else K.fail)(f'non-optical[{p.signature()}]', f'{p.kind} {p.value}')
    # symbolic r: rejected exactly outside (0, 1]
    r = z3.Real('r')
    for p in K.paths(lambda ex: (mk_gv(ex), ex.call_fn(fp, [mk_osig(ex, 'x', N, 1, False), BW], {'r': r, 'include_noise': 'ase-only'}))[1], [N >= 1, BW > 0]):
        if p.kind == 'raise':
            K.prove(f'r_range.reject[{p.signature()}]', p.pc, z3.And(z3.Or(r <= 0, r > 1), p.value == 'ValueError'), words='r is rejected only outside (0, 1], with ValueError')
        else:
            K.prove(f'r_range.accept[{p.signature()}]', p.pc, z3.And(r > 0, r <= 1), words='accepted r lies in (0, 1]')


@clause('C09.bounded', min_obl=1)
def bounded(K):
    thorough = K.tier == 'thorough'
    seed = K.seed

    def work():
        import numpy as np, scipy.signal as sg
        from scipy.constants import k as kB, e
        from opticomlib.typing import gv, optical_signal as O
        from opticomlib.devices import PD
        bad, n, seen = [], 0, set()
        gv(sps=16, R=1e9)
        fs = gv.fs
        N = 2 ** 18 if thorough else 2 ** 16
        for (r, T, RL, BW, P, Pn) in ((1.0, 300.0, 50.0, 5e9, 1e-3, 1e-6), (0.7, 77.0, 1000.0, 2e9, 2e-4, 0.0)) + (((0.9, 400.0, 75.0, 7e9, 5e-3, 1e-5),) if thorough else ()):
            sos = sg.bessel(N=4, Wn=BW, btype='low', fs=fs, output='sos', norm='mag')
            w, H = sg.sosfreqz(sos, worN=1 << 15, fs=fs, whole=True)
            nebw = np.mean(np.abs(H) ** 4)          # forward-backward: |H|^2 amplitude response, |H|^4 power response, as a fraction of fs
            rng = np.random.default_rng(seed)
            field = np.full(N, np.sqrt(P), dtype=complex)
            onoise = (rng.normal(size=N) + 1j * rng.normal(size=N)) * np.sqrt(Pn / 2) if Pn else None
            for sel in ('ase-only', 'thermal-only', 'shot-only', 'ase-thermal', 'ase-shot', 'thermal-shot', 'all'):
                np.random.seed(seed + 5)
                y = PD(O(field, onoise), BW, r=r, T=T, R_load=RL, include_noise=sel)
                n += 1
                seen.add((sel, r, T, RL, BW))
                mid = slice(N // 8, 7 * N // 8)
                dc = float(np.mean(y.signal[mid]))
                ok = abs(dc - r * P * RL) <= 1e-6 * r * P * RL and len(y.signal) == N
                var = 0.0
                if 'thermal' in sel or sel == 'all':
                    var += 4 * kB * T * (fs / 2) / RL
                if 'shot' in sel or sel == 'all':
                    var += 2 * e * (r * (P + Pn) + 10e-9) * (fs / 2)
                if ('ase' in sel or sel == 'all') and Pn:
                    beat = r * (2 * (field * onoise.conj()).real + np.abs(onoise) ** 2)
                    ref = sg.sosfiltfilt(sos, RL * (beat + 10e-9))
                else:
                    ref = np.full(N, RL * 10e-9)
                resid = y.noise[mid] - (ref[mid] if isinstance(ref, np.ndarray) else ref)
                meas = float(np.var(resid))
                exp = var * RL ** 2 * nebw
                if exp == 0:
                    ok = ok and meas <= 1e-24
                else:
                    # variance of a sample variance over correlated samples: effective count ~ N * nebw-ish; six-sigma band
                    neff = (7 * N // 8 - N // 8) * nebw
                    ok = ok and abs(meas - exp) <= 6 * exp * np.sqrt(2 / neff) + 1e-3 * exp
                if not ok:
                    bad.append({'sel': sel, 'r': r, 'T': T, 'R_load': RL, 'BW': BW, 'dc': dc, 'dc_expected': r * P * RL, 'var': meas, 'var_expected': exp})
        gv.clean()
        return {'n': n, 'distinct': len(seen), 'bad': bad[:6], 'nbad': len(bad)}
    st, r = native(work, 2400)
    K.bounded('statistics', st == 'ok' and r['nbad'] == 0, {'evaluations': r['n'] if st == 'ok' else 0, 'distinct_nontrivial': r['distinct'] if st == 'ok' else 0,
              'bound': '2 receiver configurations (thorough 3) x 7 selections, CW input of 2^16 samples (thorough 2^18); six-sigma band on the variance, 1e-6 on the DC level', 'samples': [{'sel': 'all', 'r': 1.0, 'T': 300, 'R_load': 50, 'BW': 5e9}],
              'failures': r if st == 'ok' else [st, r]})


def frame_runs(K):
    N = z3.Int('N')
    BW = z3.Real('BW')
    fp = fn(K, 'devices.PD')
    return [(f'devices.PD[{npol}pol]', (lambda ex, npol=npol: (mk_gv(ex), ex.call_fn(fp, [mk_osig(ex, 'x', N, npol, True), BW], {}))[1]), [N >= 1, BW > 0], None) for npol in (1, 2)]
